package main

import (
	"fmt"
	"go/ast"
	"go/token"
	"go/types"
	"os"
	"path/filepath"
	"sort"
	"strings"

	"golang.org/x/tools/go/packages"
	"golang.org/x/tools/go/ssa"
	"golang.org/x/tools/go/ssa/ssautil"
)

// Program is the loaded repository plus contracts.
type Program struct {
	Repo      string
	Fset      *token.FileSet
	Pkgs      []*packages.Package
	SSA       *ssa.Program
	SSAPkgs   map[string]*ssa.Package // by import path
	TypesPkgs map[string]*types.Package
	PkgDirs   map[string]string
	Contracts *Contracts
	allFuncs  map[*ssa.Function]bool
	funcByKey map[string]*ssa.Function // pkgpath::RelString
	srcCache  map[string][]string
	srcBytes  map[string][]byte
}

func copyFile(src, dst string) error {
	b, err := os.ReadFile(src)
	if err != nil {
		return err
	}
	return os.WriteFile(dst, b, 0o644)
}

// loadProgram loads the given package patterns (relative to repo) with the
// verif tag, building SSA for them and their dependencies.
func loadProgram(repo string, patterns []string, extDir string) (*Program, error) {
	scratch := scratchDir()
	modf := filepath.Join(scratch, "go.mod")
	if err := copyFile(filepath.Join(repo, "go.mod"), modf); err != nil {
		return nil, err
	}
	if err := copyFile(filepath.Join(repo, "go.sum"), filepath.Join(scratch, "go.sum")); err != nil {
		return nil, err
	}
	fset := token.NewFileSet()
	cfg := &packages.Config{
		Mode: packages.NeedName | packages.NeedFiles | packages.NeedCompiledGoFiles | packages.NeedImports |
			packages.NeedDeps | packages.NeedTypes | packages.NeedSyntax | packages.NeedTypesInfo | packages.NeedTypesSizes | packages.NeedModule,
		Dir:        repo,
		Fset:       fset,
		BuildFlags: []string{"-tags=verif", "-modfile=" + modf},
		Env: append(os.Environ(), "GOFLAGS=-mod=mod", "GOPROXY=off", "GOSUMDB=off", "GOTOOLCHAIN=local",
			"GOCACHE="+goCacheDir()),
	}
	pkgs, err := packages.Load(cfg, patterns...)
	if err != nil {
		return nil, err
	}
	var errs []string
	packages.Visit(pkgs, nil, func(p *packages.Package) {
		for _, e := range p.Errors {
			errs = append(errs, e.Error())
		}
	})
	if len(errs) > 0 {
		return nil, fmt.Errorf("load errors:\n%s", strings.Join(errs, "\n"))
	}
	prog, spkgs := ssautil.AllPackages(pkgs, ssa.GlobalDebug)
	prog.Build()
	P := &Program{Repo: repo, Fset: fset, Pkgs: pkgs, SSA: prog, SSAPkgs: map[string]*ssa.Package{}, TypesPkgs: map[string]*types.Package{}, PkgDirs: map[string]string{}, funcByKey: map[string]*ssa.Function{}, srcCache: map[string][]string{}}
	for i, p := range pkgs {
		if spkgs[i] != nil {
			P.SSAPkgs[p.PkgPath] = spkgs[i]
		}
	}
	// contract files are read for every package of the repository that is loaded,
	// including those loaded only as dependencies of the requested packages
	packages.Visit(pkgs, nil, func(p *packages.Package) {
		if len(p.GoFiles) > 0 && strings.HasPrefix(filepath.Dir(p.GoFiles[0]), repo) {
			P.PkgDirs[p.PkgPath] = filepath.Dir(p.GoFiles[0])
		}
	})
	for _, sp := range prog.AllPackages() {
		P.SSAPkgs[sp.Pkg.Path()] = sp
		P.TypesPkgs[sp.Pkg.Path()] = sp.Pkg
	}
	P.allFuncs = ssautil.AllFunctions(prog)
	for fn := range P.allFuncs {
		if fn.Pkg == nil {
			continue
		}
		P.funcByKey[fn.Pkg.Pkg.Path()+"::"+fn.RelString(fn.Pkg.Pkg)] = fn
	}
	cs, err := loadAllContracts(repo, P.PkgDirs, extDir)
	if err != nil {
		return nil, err
	}
	P.Contracts = cs
	P.liftContracts()
	return P, nil
}

func goCacheDir() string {
	if d := os.Getenv("GOCACHE"); d != "" {
		return d
	}
	out, _ := os.UserCacheDir()
	return filepath.Join(out, "go-build")
}

func (P *Program) lookupFunc(pkg, key string) *ssa.Function {
	return P.funcByKey[pkg+"::"+key]
}

func (P *Program) contractFor(fn *ssa.Function) *FuncContract {
	if fn == nil || fn.Pkg == nil {
		if fn != nil && fn.Parent() != nil {
			// closure of a function in a package
			par := fn.Parent()
			for par.Parent() != nil {
				par = par.Parent()
			}
			if par.Pkg != nil {
				return P.Contracts.Funcs[par.Pkg.Pkg.Path()+"::"+fn.RelString(par.Pkg.Pkg)]
			}
		}
		return nil
	}
	return P.Contracts.Funcs[fn.Pkg.Pkg.Path()+"::"+fn.RelString(fn.Pkg.Pkg)]
}

func funcPkg(fn *ssa.Function) *types.Package {
	for fn != nil {
		if fn.Pkg != nil {
			return fn.Pkg.Pkg
		}
		if fn.Parent() == nil {
			break
		}
		fn = fn.Parent()
	}
	if fn != nil && fn.Object() != nil {
		return fn.Object().Pkg()
	}
	return nil
}

func funcKey(fn *ssa.Function) string {
	p := funcPkg(fn)
	if p == nil {
		return fn.String()
	}
	return p.Path() + "::" + fn.RelString(p)
}

func funcDisplay(fn *ssa.Function) string {
	p := funcPkg(fn)
	if p == nil {
		return fn.String()
	}
	return p.Name() + "." + fn.RelString(p)
}

// sourceLine returns the text of a source line (trimmed).
func (P *Program) sourceLine(pos token.Position) string {
	if !pos.IsValid() {
		return ""
	}
	lines, ok := P.srcCache[pos.Filename]
	if !ok {
		b, err := os.ReadFile(pos.Filename)
		if err == nil {
			lines = strings.Split(string(b), "\n")
		}
		P.srcCache[pos.Filename] = lines
	}
	if pos.Line-1 < len(lines) && pos.Line >= 1 {
		return strings.TrimSpace(lines[pos.Line-1])
	}
	return ""
}

// syntaxOf finds the ast.FuncDecl / FuncLit node of an SSA function.
func syntaxOf(fn *ssa.Function) ast.Node { return fn.Syntax() }

// implementations of an interface among named types of loaded repo packages.
func (P *Program) implementers(iface *types.Interface, repoPrefix string) []types.Type {
	var out []types.Type
	var paths []string
	for p := range P.TypesPkgs {
		paths = append(paths, p)
	}
	sort.Strings(paths)
	for _, p := range paths {
		if !strings.HasPrefix(p, repoPrefix) {
			continue
		}
		scope := P.TypesPkgs[p].Scope()
		for _, n := range scope.Names() {
			tn, ok := scope.Lookup(n).(*types.TypeName)
			if !ok || tn.IsAlias() {
				continue
			}
			t := tn.Type()
			if _, isIface := t.Underlying().(*types.Interface); isIface {
				continue
			}
			if types.Implements(t, iface) {
				out = append(out, t)
			} else if pt := types.NewPointer(t); types.Implements(pt, iface) {
				out = append(out, pt)
			}
		}
	}
	return out
}

// substResult replaces the identifier `result` in a spec expression.
func substResult(e Expr, repl Expr) Expr {
	switch x := e.(type) {
	case *EIdent:
		if x.Name == "result" || x.Name == "result0" {
			return repl
		}
		if strings.HasSuffix(x.Name, "@0") {
			return &EIdent{strings.TrimSuffix(x.Name, "@0")}
		}
		return x
	case *EUnary:
		return &EUnary{x.Op, substResult(x.X, repl)}
	case *EBinary:
		return &EBinary{x.Op, substResult(x.X, repl), substResult(x.Y, repl)}
	case *ECond:
		return &ECond{substResult(x.C, repl), substResult(x.A, repl), substResult(x.B, repl)}
	case *EField:
		return &EField{substResult(x.X, repl), x.Name}
	case *EIndex:
		return &EIndex{substResult(x.X, repl), substResult(x.I, repl)}
	case *ECall:
		var as []Expr
		for _, a := range x.Args {
			as = append(as, substResult(a, repl))
		}
		return &ECall{x.Fun, as}
	case *EQuant:
		return &EQuant{x.Forall, x.Vars, substResult(x.Body, repl), x.Pats}
	case *ELet:
		return &ELet{x.Name, substResult(x.V, repl), substResult(x.B, repl)}
	case *ETypeAssert:
		return &ETypeAssert{substResult(x.X, repl), x.T}
	}
	return e
}

func typeToExpr(t types.Type, pkg *types.Package) *TypeExpr {
	switch tt := t.(type) {
	case *types.Named:
		if tt.Obj().Pkg() == nil || tt.Obj().Pkg() == pkg {
			return &TypeExpr{Kind: "name", Name: tt.Obj().Name()}
		}
		return &TypeExpr{Kind: "name", Pkg: tt.Obj().Pkg().Name(), Name: tt.Obj().Name()}
	case *types.Basic:
		return &TypeExpr{Kind: "name", Name: tt.Name()}
	case *types.Pointer:
		return &TypeExpr{Kind: "ptr", Elem: typeToExpr(tt.Elem(), pkg)}
	case *types.Slice:
		return &TypeExpr{Kind: "slice", Elem: typeToExpr(tt.Elem(), pkg)}
	}
	return &TypeExpr{Kind: "name", Name: "int"}
}

// liftContracts turns `lift NAME` on a pure, deterministic function with a
// `defines result == f(params)` clause into the lemma
//     forall params :: requires ==> ensures[result := f(params)]
// It is listed as an axiom whose justification is the function's own proved
// contract (every ensures clause holds for all arguments) plus determinism.
func (P *Program) liftContracts() {
	for _, fc := range P.Contracts.Funcs {
		name := fc.Opts["lift"]
		if name == "" || len(fc.Defines) != 1 {
			continue
		}
		fn := P.lookupFunc(fc.Pkg, fc.Key)
		if fn == nil {
			continue
		}
		def, ok := fc.Defines[0].Expr.(*EBinary)
		if !ok || def.Op != "==" {
			continue
		}
		lm := &Lemma{Pkg: fc.Pkg, Name: name, Axiom: true, Mode: fc.Mode, Props: fc.Props,
			Reason: "lifted from the proved contract of " + fc.Key + " (holds for all arguments; the function is deterministic)"}
		for _, p := range fn.Params {
			lm.Params = append(lm.Params, Param{p.Name(), typeToExpr(p.Type(), fn.Pkg.Pkg)})
		}
		lm.Requires = fc.Requires
		for _, e := range fc.Ensures {
			lm.Ensures = append(lm.Ensures, &Clause{Kind: "ensures", Label: e.Label, Text: e.Text, Expr: substResult(e.Expr, def.Y)})
		}
		P.Contracts.Lemmas[fc.Pkg+"::"+name] = lm
	}
}

// exprText returns the source text between two positions (single file).
func (P *Program) exprText(pos, end token.Pos) string {
	if !pos.IsValid() || !end.IsValid() {
		return ""
	}
	p1, p2 := P.Fset.Position(pos), P.Fset.Position(end)
	if p1.Filename != p2.Filename {
		return ""
	}
	if _, ok := P.srcCache[p1.Filename]; !ok {
		P.sourceLine(p1)
	}
	b, ok := P.srcBytes[p1.Filename]
	if !ok {
		data, err := os.ReadFile(p1.Filename)
		if err != nil {
			return ""
		}
		if P.srcBytes == nil {
			P.srcBytes = map[string][]byte{}
		}
		P.srcBytes[p1.Filename] = data
		b = data
	}
	if p1.Offset < 0 || p2.Offset > len(b) || p1.Offset >= p2.Offset {
		return ""
	}
	return strings.Join(strings.Fields(string(b[p1.Offset:p2.Offset])), " ")
}
