package main

func buildWitness(o *checkOpts, P *Program, rp *oblReport) *witness { return nil }

func runWitnessTest(repo, pkg, file, src string) (string, bool) { return "", false }
