package main

import (
	"bytes"
	"context"
	"encoding/json"
	"fmt"
	"go/types"
	"math"
	"math/big"
	"os"
	"os/exec"
	"path/filepath"
	"strconv"
	"strings"
	"time"

	"golang.org/x/tools/go/ssa"
)

// ---------- probes: terms whose model values describe the inputs ----------

type probe struct {
	Path string // Go-like path, e.g. "b.Min.X", "p[0][1].Y"
	Term string
	Ty   types.Type
}

const probeElems = 4

func (c *Ctx) probesFor(path, term string, t types.Type, depth int, out *[]probe) {
	if depth > 4 {
		return
	}
	st := newEntryState()
	switch tt := t.Underlying().(type) {
	case *types.Basic:
		*out = append(*out, probe{path, term, t})
	case *types.Struct:
		for i := 0; i < tt.NumFields(); i++ {
			c.probesFor(path+"."+tt.Field(i).Name(), c.fieldSel(t, i, term), tt.Field(i).Type(), depth+1, out)
		}
	case *types.Pointer:
		*out = append(*out, probe{path + "#obj", "(pobj " + term + ")", tInt})
		*out = append(*out, probe{path + "#idx", "(pidx " + term + ")", tInt})
		if _, isArr := tt.Elem().Underlying().(*types.Array); isArr {
			return
		}
		es := c.hk(tt.Elem())
		c.probesFor("(*"+path+")", fmt.Sprintf("(select (select %s (pobj %s)) (pidx %s))", c.heap(st, es), term, term), tt.Elem(), depth+1, out)
	case *types.Slice:
		*out = append(*out, probe{path + "#len", "(slen " + term + ")", tInt})
		*out = append(*out, probe{path + "#cap", "(scap " + term + ")", tInt})
		*out = append(*out, probe{path + "#obj", "(sobj " + term + ")", tInt})
		*out = append(*out, probe{path + "#off", "(soff " + term + ")", tInt})
		es := c.hk(tt.Elem())
		for i := 0; i < probeElems; i++ {
			c.probesFor(fmt.Sprintf("%s[%d]", path, i), fmt.Sprintf("(select (select %s (sobj %s)) (+ (soff %s) %d))", c.heap(st, es), term, term, i), tt.Elem(), depth+1, out)
		}
	case *types.Interface:
		*out = append(*out, probe{path + "#tag", "(itag " + term + ")", tInt})
		for i, ct := range c.tagTypes {
			if i > 12 {
				break
			}
			if _, isIface := ct.Underlying().(*types.Interface); isIface {
				continue
			}
			c.probesFor(fmt.Sprintf("%s.(%s)", path, types.TypeString(ct, func(p *types.Package) string { return "" })), c.unbox(ct, "(ival "+term+")"), ct, depth+1, out)
		}
	case *types.Array:
		n := tt.Len()
		if n > 8 {
			n = 8
		}
		for i := int64(0); i < n; i++ {
			c.probesFor(fmt.Sprintf("%s[%d]", path, i), fmt.Sprintf("(select %s %d)", term, i), tt.Elem(), depth+1, out)
		}
	}
}

// ---------- model value parsing ----------

// parseSexprs parses the output of (get-value ...) : ((t1 v1) (t2 v2) ...)
func parseTop(s string) []string {
	s = strings.TrimSpace(s)
	return splitArgsAll(s)
}

func splitArgsAll(t string) []string {
	t = strings.TrimSpace(t)
	if !strings.HasPrefix(t, "(") {
		return nil
	}
	// find matching close of the first paren
	depth := 0
	end := -1
	for i := 0; i < len(t); i++ {
		if t[i] == '(' {
			depth++
		} else if t[i] == ')' {
			depth--
			if depth == 0 {
				end = i
				break
			}
		}
	}
	if end < 0 {
		return nil
	}
	inner := "(" + "x " + t[1:end] + ")"
	a := splitArgs(inner)
	if len(a) > 0 {
		return a[1:]
	}
	return nil
}

func decodeValue(v string, t types.Type, mode Mode) (interface{}, string) {
	v = strings.TrimSpace(v)
	if isFloat(t) {
		f, ok := decodeFloat(v, mode)
		if !ok {
			return nil, v
		}
		return f, goFloat(f)
	}
	if isBool(t) {
		return v == "true", v
	}
	if isInteger(t) {
		if n, ok := decodeInt(v); ok {
			return n, n.String()
		}
	}
	return nil, v
}

func decodeInt(v string) (*big.Int, bool) {
	v = strings.TrimSpace(v)
	neg := false
	if strings.HasPrefix(v, "(-") {
		neg = true
		v = strings.TrimSpace(strings.TrimSuffix(strings.TrimPrefix(v, "(-"), ")"))
	}
	n, ok := new(big.Int).SetString(v, 10)
	if !ok {
		return nil, false
	}
	if neg {
		n.Neg(n)
	}
	return n, true
}

func decodeReal(v string) (*big.Rat, bool) {
	v = strings.TrimSpace(v)
	if strings.HasPrefix(v, "(-") {
		r, ok := decodeReal(strings.TrimSuffix(strings.TrimSpace(strings.TrimPrefix(v, "(-")), ")"))
		if ok {
			return r.Neg(r), true
		}
		return nil, false
	}
	if strings.HasPrefix(v, "(/") {
		a := splitArgs(v)
		if len(a) == 3 {
			x, ok1 := decodeReal(a[1])
			y, ok2 := decodeReal(a[2])
			if ok1 && ok2 && y.Sign() != 0 {
				return x.Quo(x, y), true
			}
		}
		return nil, false
	}
	v = strings.TrimSuffix(v, "?")
	r, ok := new(big.Rat).SetString(v)
	return r, ok
}

func decodeFloat(v string, mode Mode) (float64, bool) {
	switch mode {
	case ModeXReal:
		switch {
		case strings.HasPrefix(v, "xpinf"):
			return math.Inf(1), true
		case strings.HasPrefix(v, "xninf"):
			return math.Inf(-1), true
		case strings.HasPrefix(v, "xnan"):
			return math.NaN(), true
		case strings.HasPrefix(v, "(xfin"):
			a := splitArgs(v)
			if len(a) == 2 {
				return decodeFloat(a[1], ModeReal)
			}
		}
		return 0, false
	case ModeReal:
		r, ok := decodeReal(v)
		if !ok {
			return 0, false
		}
		f, _ := r.Float64()
		return f, true
	case ModeFP:
		switch {
		case strings.HasPrefix(v, "(_ +oo"):
			return math.Inf(1), true
		case strings.HasPrefix(v, "(_ -oo"):
			return math.Inf(-1), true
		case strings.HasPrefix(v, "(_ NaN"):
			return math.NaN(), true
		case strings.HasPrefix(v, "(_ +zero"):
			return 0, true
		case strings.HasPrefix(v, "(_ -zero"):
			return math.Copysign(0, -1), true
		case strings.HasPrefix(v, "(fp "):
			a := splitArgs(v)
			if len(a) == 4 {
				bits := bvBits(a[1]) + bvBits(a[2]) + bvBits(a[3])
				if len(bits) == 64 {
					u, err := strconv.ParseUint(bits, 2, 64)
					if err == nil {
						return math.Float64frombits(u), true
					}
				}
			}
		}
	}
	return 0, false
}

func bvBits(s string) string {
	if strings.HasPrefix(s, "#b") {
		return s[2:]
	}
	if strings.HasPrefix(s, "#x") {
		var b strings.Builder
		for _, ch := range s[2:] {
			n, _ := strconv.ParseUint(string(ch), 16, 8)
			b.WriteString(fmt.Sprintf("%04b", n))
		}
		return b.String()
	}
	return ""
}

func goFloat(f float64) string {
	switch {
	case math.IsInf(f, 1):
		return "math.Inf(1)"
	case math.IsInf(f, -1):
		return "math.Inf(-1)"
	case math.IsNaN(f):
		return "math.NaN()"
	case f == 0 && math.Signbit(f):
		return "math.Copysign(0, -1)"
	}
	return strconv.FormatFloat(f, 'g', -1, 64)
}

// modelValues re-runs a solver on the failing query asking for the probes.
func modelValues(rp *oblReport, probes []probe, timeoutS int) map[string]string {
	if len(probes) == 0 {
		return nil
	}
	var extra []string
	if len(rp.obl.Using) > 0 {
		extra = rp.obl.ctx.lemmaAxioms(rp.obl.Using, nil)
	}
	q := rp.obl.queryVariant(extra, 1)
	q = strings.Replace(q, "(get-model)\n", "", 1)
	var ts []string
	for _, p := range probes {
		ts = append(ts, p.Term)
	}
	q += "(get-value (" + strings.Join(ts, " ") + "))\n"
	solver := strings.TrimSuffix(rp.Solver, "/rec")
	if solver == "" {
		solver = "z3-new"
	}
	res := runSolversRaw(rp.Name+"-probe", q, timeoutS, solver)
	i := strings.Index(res, "sat")
	if i < 0 || strings.HasPrefix(strings.TrimSpace(res), "unsat") {
		return nil
	}
	body := strings.TrimSpace(res[i+3:])
	pairs := parseTop(body)
	out := map[string]string{}
	for k, pr := range pairs {
		a := splitArgs(pr)
		if len(a) < 2 || k >= len(probes) {
			continue
		}
		// value is everything after the first term; the term may contain spaces → use last element
		out[probes[k].Path] = a[len(a)-1]
	}
	return out
}

func runSolversRaw(name, query string, timeoutS int, solver string) string {
	dir := scratchDir()
	file := filepath.Join(dir, fmt.Sprintf("probe-%d.smt2", time.Now().UnixNano()))
	os.WriteFile(file, []byte(query), 0o644)
	defer os.Remove(file)
	for _, sp := range solverSpecs {
		if sp.name != solver {
			continue
		}
		argv := sp.argv(file, timeoutS)
		ctx, cancel := context.WithTimeout(context.Background(), time.Duration(timeoutS+2)*time.Second)
		defer cancel()
		cmd := exec.CommandContext(ctx, argv[0], argv[1:]...)
		var buf bytes.Buffer
		cmd.Stdout = &buf
		cmd.Stderr = &buf
		cmd.Run()
		return buf.String()
	}
	return ""
}

// ---------- building Go values from probe values ----------

type goBuilder struct {
	c      *Ctx
	vals   map[string]string
	mode   Mode
	pkg    *types.Package
	ok     bool
	notes  []string
	ptrVar map[string]string // object id -> Go variable holding the pointee
	pre    []string          // statements declaring shared objects
	n      int
}

func (g *goBuilder) qual(p *types.Package) string {
	if p == g.pkg {
		return ""
	}
	return p.Name()
}

func (g *goBuilder) typeStr(t types.Type) string { return types.TypeString(t, g.qual) }

func (g *goBuilder) intVal(path string) (int64, bool) {
	v, ok := g.vals[path]
	if !ok {
		return 0, false
	}
	n, ok := decodeInt(v)
	if !ok || !n.IsInt64() {
		return 0, false
	}
	return n.Int64(), true
}

// build returns a Go expression for the value at path of type t.
func (g *goBuilder) build(path string, t types.Type, depth int) string {
	switch tt := t.Underlying().(type) {
	case *types.Basic:
		v, ok := g.vals[path]
		if !ok {
			g.notes = append(g.notes, "no model value for "+path)
			return g.zeroExpr(t)
		}
		_, txt := decodeValue(v, t, g.mode)
		if isString(t) {
			return `""`
		}
		if isFloat(t) || isInteger(t) || isBool(t) {
			if _, named := t.(*types.Named); named {
				return g.typeStr(t) + "(" + txt + ")"
			}
			return txt
		}
		return g.zeroExpr(t)
	case *types.Struct:
		var fs []string
		for i := 0; i < tt.NumFields(); i++ {
			fs = append(fs, tt.Field(i).Name()+": "+g.build(path+"."+tt.Field(i).Name(), tt.Field(i).Type(), depth+1))
		}
		return g.typeStr(t) + "{" + strings.Join(fs, ", ") + "}"
	case *types.Pointer:
		obj, ok := g.intVal(path + "#obj")
		if !ok || obj == 0 {
			return "nil"
		}
		pidx, _ := g.intVal(path + "#idx")
		key := fmt.Sprintf("%s@%d.%d", g.typeStr(tt.Elem()), obj, pidx)
		if v, ok := g.ptrVar[key]; ok {
			return v
		}
		g.n++
		name := fmt.Sprintf("obj%d", g.n)
		g.ptrVar[key] = name
		g.pre = append(g.pre, fmt.Sprintf("%s := &%s", name, strings.TrimPrefix(g.build("(*"+path+")", tt.Elem(), depth+1), "&")))
		return name
	case *types.Slice:
		n, ok := g.intVal(path + "#len")
		if !ok {
			return "nil"
		}
		obj, _ := g.intVal(path + "#obj")
		if obj == 0 && n == 0 {
			return "nil"
		}
		if n > probeElems {
			g.notes = append(g.notes, fmt.Sprintf("%s has length %d in the model; only %d elements are reconstructed", path, n, probeElems))
			g.ok = false
			n = probeElems
		}
		var es []string
		for i := int64(0); i < n; i++ {
			es = append(es, g.build(fmt.Sprintf("%s[%d]", path, i), tt.Elem(), depth+1))
		}
		expr := g.typeStr(t) + "{" + strings.Join(es, ", ") + "}"
		if cp, ok := g.intVal(path + "#cap"); ok && cp > n && cp < 64 {
			// keep spare capacity: it matters for aliasing appends
			g.n++
			name := fmt.Sprintf("sl%d", g.n)
			g.pre = append(g.pre, fmt.Sprintf("%s := make(%s, %d, %d)", name, g.typeStr(t), n, cp), fmt.Sprintf("copy(%s, %s)", name, expr))
			return name
		}
		return expr
	case *types.Interface:
		tag, ok := g.intVal(path + "#tag")
		if !ok || tag == 0 {
			return "nil"
		}
		if tag >= 1 && int(tag) <= len(g.c.tagTypes) {
			ct := g.c.tagTypes[tag-1]
			if _, isIface := ct.Underlying().(*types.Interface); !isIface {
				return g.build(fmt.Sprintf("%s.(%s)", path, types.TypeString(ct, func(p *types.Package) string { return "" })), ct, depth+1)
			}
		}
		g.notes = append(g.notes, fmt.Sprintf("%s has an unknown dynamic type tag %d", path, tag))
		g.ok = false
		return "nil"
	case *types.Array:
		var es []string
		for i := int64(0); i < tt.Len() && i < 8; i++ {
			es = append(es, g.build(fmt.Sprintf("%s[%d]", path, i), tt.Elem(), depth+1))
		}
		return g.typeStr(t) + "{" + strings.Join(es, ", ") + "}"
	}
	g.ok = false
	g.notes = append(g.notes, "cannot reconstruct "+path+" of type "+t.String())
	return g.zeroExpr(t)
}

func (g *goBuilder) zeroExpr(t types.Type) string {
	switch t.Underlying().(type) {
	case *types.Basic:
		if isString(t) {
			return `""`
		}
		if isBool(t) {
			return "false"
		}
		return "0"
	case *types.Struct, *types.Array:
		return g.typeStr(t) + "{}"
	}
	return "nil"
}

// buildWitness extracts concrete inputs from the model and replays them on
// the real code with an in-package test injected through -overlay.
func buildWitness(o *checkOpts, P *Program, rp *oblReport) *witness {
	if rp.res.Status != "sat" {
		return nil
	}
	c := rp.obl.ctx
	fnKey := ""
	for k, f := range P.funcByKey {
		if funcDisplay(f) == rp.obl.Func {
			fnKey = k
		}
	}
	fn := P.funcByKey[fnKey]
	if fn == nil || fn.Parent() != nil {
		return nil
	}
	var probes []probe
	var pterms []string
	for _, cmd := range c.cmds {
		if strings.HasPrefix(cmd, "(declare-fun p_") {
			pterms = append(pterms, strings.Fields(cmd)[1])
		}
	}
	if len(pterms) < len(fn.Params) {
		return nil
	}
	for i, p := range fn.Params {
		c.probesFor(p.Name(), pterms[i], p.Type(), 0, &probes)
	}
	vals := modelValues(rp, probes, 20)
	if vals == nil {
		return nil
	}
	g := &goBuilder{c: c, vals: vals, mode: c.mode, pkg: funcPkg(fn), ok: true, ptrVar: map[string]string{}}
	var argExprs []string
	for _, p := range fn.Params {
		argExprs = append(argExprs, g.build(p.Name(), p.Type(), 0))
	}
	src := g.testSource(fn, argExprs, rp)
	pkgPath := funcPkg(fn).Path()
	dir := P.PkgDirs[pkgPath]
	testFile := filepath.Join(dir, "zz_replay_verif_test.go")
	out, failed := runWitnessTest(o.repo, pkgPath, testFile, src)
	w := &witness{TestFile: testFile, TestSource: src, Pkg: pkgPath, Output: out, Confirmed: failed && g.ok || failed}
	mv, _ := json.Marshal(vals)
	w.Output = "model values: " + string(mv) + "\nnotes: " + strings.Join(g.notes, "; ") + "\n" + out
	return w
}

// testSource writes an in-package test that calls fn on the witness and
// reports REPLAY-FAIL if it panics (safety) or runs past the deadline; for
// postconditions the values are printed and the executable check (if the
// clause compiles to Go) decides.
func (g *goBuilder) testSource(fn *ssa.Function, args []string, rp *oblReport) string {
	var b strings.Builder
	pkg := funcPkg(fn)
	b.WriteString("package " + pkg.Name() + "\n\n")
	b.WriteString("import (\n\t\"fmt\"\n\t\"math\"\n\t\"testing\"\n")
	imports := map[string]bool{}
	for _, a := range append(append([]string{}, args...), g.pre...) {
		for _, imp := range pkg.Imports() {
			if strings.Contains(a, imp.Name()+".") && imp.Name() != "math" && imp.Name() != "fmt" {
				imports[imp.Path()] = true
			}
		}
	}
	for p := range imports {
		b.WriteString("\t\"" + p + "\"\n")
	}
	b.WriteString(")\n\nvar _ = math.Inf\nvar _ = fmt.Sprint\n\n")
	b.WriteString("// obligation: " + rp.Name + "\n// " + strings.ReplaceAll(rp.Text, "\n", " ") + "\n")
	// executable postcondition
	var gc *goComp
	check := ""
	if rp.Kind == "ensures" && rp.obl.Expr != nil {
		gc = &goComp{c: g.c, pkg: pkg, funcs: map[string]string{}, ok: true, bound: map[string]bool{}}
		for i := 0; i < fn.Signature.Results().Len(); i++ {
			gc.results = append(gc.results, fmt.Sprintf("r%d", i))
			gc.resNames = append(gc.resNames, fn.Signature.Results().At(i).Name())
		}
		check = gc.expr(rp.obl.Expr)
		if !gc.ok {
			g.notes = append(g.notes, "postcondition is not executable: "+gc.why)
			check = ""
		}
	}
	if gc != nil && gc.ok {
		b.WriteString(gc.helpers())
	}
	b.WriteString("func TestReplayVerif(t *testing.T) {\n")
	for _, p := range g.pre {
		b.WriteString("\t" + p + "\n")
	}
	for i, p := range fn.Params {
		b.WriteString(fmt.Sprintf("\tvar %s %s = %s\n\t_ = %s\n", p.Name(), g.typeStr(p.Type()), args[i], p.Name()))
	}
	var names []string
	for _, p := range fn.Params {
		names = append(names, p.Name())
	}
	call := ""
	sig := fn.Signature
	if sig.Recv() != nil {
		call = names[0] + "." + fn.Name() + "(" + strings.Join(names[1:], ", ") + ")"
	} else {
		call = fn.Name() + "(" + strings.Join(names, ", ") + ")"
	}
	if sig.Variadic() {
		call = strings.TrimSuffix(call, ")") + "...)"
	}
	b.WriteString("\tdefer func() {\n\t\tif r := recover(); r != nil {\n\t\t\tt.Fatalf(\"REPLAY-FAIL panic: %v\", r)\n\t\t}\n\t}()\n")
	if gc != nil && gc.ok {
		for _, o := range gc.olds {
			b.WriteString("\t" + o + "\n")
		}
	}
	nres := sig.Results().Len()
	if nres == 0 {
		b.WriteString("\t" + call + "\n")
	} else {
		var rs []string
		for i := 0; i < nres; i++ {
			rs = append(rs, fmt.Sprintf("r%d", i))
		}
		b.WriteString("\t" + strings.Join(rs, ", ") + " := " + call + "\n")
		for _, r := range rs {
			b.WriteString("\tfmt.Printf(\"REPLAY-RESULT " + r + " = %#v\\n\", " + r + ")\n")
		}
	}
	if check != "" {
		b.WriteString("\tif !(" + check + ") {\n\t\tt.Fatalf(\"REPLAY-FAIL postcondition violated on the real code\")\n\t}\n")
	} else if rp.Kind != "safety" {
		b.WriteString("\tt.Logf(\"REPLAY-NOTE this obligation has no executable check; inputs and results are printed only\")\n")
	}
	b.WriteString("}\n")
	return b.String()
}

func runWitnessTest(repo, pkg, file, src string) (string, bool) {
	dir := scratchDir()
	srcFile := filepath.Join(dir, fmt.Sprintf("replay-%d_test.go", time.Now().UnixNano()))
	if err := os.WriteFile(srcFile, []byte(src), 0o644); err != nil {
		return err.Error(), false
	}
	ov := map[string]map[string]string{"Replace": {file: srcFile}}
	ob, _ := json.Marshal(ov)
	ovFile := filepath.Join(dir, fmt.Sprintf("ov-%d.json", time.Now().UnixNano()))
	os.WriteFile(ovFile, ob, 0o644)
	modf := filepath.Join(dir, "go.mod")
	if _, err := os.Stat(modf); err != nil {
		copyFile(filepath.Join(repo, "go.mod"), modf)
		copyFile(filepath.Join(repo, "go.sum"), filepath.Join(dir, "go.sum"))
	}
	ctx, cancel := context.WithTimeout(context.Background(), 600*time.Second)
	defer cancel()
	cmd := exec.CommandContext(ctx, "bash", "-c", fmt.Sprintf("ulimit -v 8000000; cd %s && go test -modfile=%s -overlay %s -vet=off -count=1 -timeout 60s -run '^TestReplayVerif$' -v %s", repo, modf, ovFile, pkg))
	cmd.Env = append(os.Environ(), "GOFLAGS=-mod=mod", "GOPROXY=off", "GOSUMDB=off", "GOTOOLCHAIN=local")
	var buf bytes.Buffer
	cmd.Stdout = &buf
	cmd.Stderr = &buf
	err := cmd.Run()
	out := buf.String()
	if len(out) > 8000 {
		out = out[:8000]
	}
	failed := err != nil && (strings.Contains(out, "REPLAY-FAIL") || strings.Contains(out, "panic:") || strings.Contains(out, "test timed out"))
	return out, failed
}
