package main

import (
	"fmt"
	"go/constant"
	"go/token"
	"go/types"
	"sort"
	"strings"

	"golang.org/x/tools/go/ssa"
)

type pathEl struct {
	field int    // struct field index (when !isIdx)
	idx   string // array index term (when isIdx)
	isIdx bool
}

// Val is a symbolic value.
type Val struct {
	T      string
	Ty     types.Type
	Path   []pathEl   // pointer with static path below its root
	RootTy types.Type // pointee type of the root (when Path != nil or Local != nil)
	Local  *ssa.Alloc // root is a local (non-escaping) cell
	Tuple  []Val
	Clos   *closInfo
	Boxed  *Val // for an interface value built by MakeInterface: the boxed value with its static type
}

type closInfo struct {
	fn       *ssa.Function
	bindings []Val
}

// State is the mutable part of a symbolic execution state.
type State struct {
	heaps  map[string]string // elem sort -> heap term
	alloc  string
	locals map[*ssa.Alloc]string
	ghost  map[string]string
}

func (s *State) clone() *State {
	n := &State{heaps: map[string]string{}, alloc: s.alloc, locals: map[*ssa.Alloc]string{}, ghost: map[string]string{}}
	for k, v := range s.heaps {
		n.heaps[k] = v
	}
	for k, v := range s.locals {
		n.locals[k] = v
	}
	for k, v := range s.ghost {
		n.ghost[k] = v
	}
	return n
}

func newEntryState() *State {
	return &State{heaps: map[string]string{}, alloc: "alloc0", locals: map[*ssa.Alloc]string{}, ghost: map[string]string{}}
}

// heapWFAxiom: every slice stored in a heap of slices is well formed (a Go
// invariant; needed when specs read lengths of nested slices).
func (c *Ctx) heapWFAxiom(key, name string) string {
	bound := c.heapBound[name]
	if bound == "" {
		bound = "alloc0"
	}
	if baseSort(key) == "Ptr" {
		return fmt.Sprintf("(forall ((o Int) (i Int)) (! (and (>= (pobj (select (select %s o) i)) 0) (< (pobj (select (select %s o) i)) %s)) :pattern ((select (select %s o) i))))", name, name, bound, name)
	}
	if strings.HasPrefix(key, "map!") && strings.HasSuffix(key, "!val") {
		// values stored in maps are allocated references
		parts := strings.Split(key, "!")
		if len(parts) == 4 {
			cell := fmt.Sprintf("(select (select %s o) k)", name)
			switch mapValSort(parts[2]) {
			case "Ptr":
				return fmt.Sprintf("(forall ((o Int) (k %s)) (! (and (>= (pobj %s) 0) (< (pobj %s) %s)) :pattern (%s)))", parts[1], cell, cell, bound, cell)
			case "Slice":
				return fmt.Sprintf("(forall ((o Int) (k %s)) (! (and (wfslice %s) (< (sobj %s) %s)) :pattern (%s)))", parts[1], cell, cell, bound, cell)
			case "Int":
				if strings.Contains(parts[2], "@") {
					return fmt.Sprintf("(forall ((o Int) (k %s)) (! (and (>= %s 0) (< %s %s)) :pattern (%s)))", parts[1], cell, cell, bound, cell)
				}
			}
		}
		return ""
	}
	if baseSort(key) != "Slice" {
		if t, ok := sortTypes[key]; ok {
			cell := fmt.Sprintf("(select (select %s o) i)", name)
			if w := c.wfTerm(cell, t, bound, 0); w != "true" {
				return fmt.Sprintf("(forall ((o Int) (i Int)) (! %s :pattern (%s)))", w, cell)
			}
		}
		return ""
	}
	return fmt.Sprintf("(forall ((o Int) (i Int)) (! (and (wfslice (select (select %s o) i)) (< (sobj (select (select %s o) i)) %s)) :pattern ((select (select %s o) i))))", name, name, bound, name)
}

// wantSliceWF adds (once) the well-formedness axiom for a heap of slices
// that a spec expression reads.
func (c *Ctx) wantSliceWF(key, name string) {
	if c.declared["slicewf:"+name] {
		return
	}
	if baseSort(key) != "Slice" && baseSort(key) != "Ptr" && !(strings.HasPrefix(key, "map!") && strings.HasSuffix(key, "!val")) {
		if _, ok := sortTypes[key]; !ok {
			return
		}
	}
	if _, isDef := c.defs[name]; isDef {
		return
	}
	if _, isDef := c.heapDefs[name]; isDef {
		// derived heaps: use the axiom of the heap they are built from
		c.wantSliceWF(key, c.heapDefs[name].base)
		return
	}
	c.declared["slicewf:"+name] = true
	if ax := c.heapWFAxiom(key, name); ax != "" {
		c.lateAxioms = append(c.lateAxioms, "(assert "+ax+")")
	}
}

// newHeapConst declares a havocked heap.
func (c *Ctx) newHeapConst(key, prefix, bound string) string {
	c.ensureSort(key)
	n := c.declConst(heapKey(key)+prefix, c.heapSortOf(key))
	c.heapBound[n] = bound
	return n
}

// markOldSame records that heap constant n agrees with the entry heap on
// objects that existed at function entry (no modifies item of that sort).
func (fr *frame) markOldSame(key, n string) {
	for _, m := range fr.modObjs {
		if m.sortKey == key {
			return
		}
	}
	if strings.HasPrefix(key, "map!") {
		return
	}
	fr.c.oldSame[n] = fr.c.heap(fr.entry, key)
}

// heap returns the current heap term for an element sort.
func (c *Ctx) heap(st *State, elemSort string) string {
	c.ensureSort(elemSort)
	if h, ok := st.heaps[elemSort]; ok {
		return h
	}
	name := heapKey(elemSort) + "_0"
	if !c.declared["heap0:"+name] {
		c.declOnce("heap0:"+name, fmt.Sprintf("(declare-fun %s () %s)", name, c.heapSortOf(elemSort)))
	}
	return name
}

func (c *Ctx) setHeap(st *State, elemSort, term string) {
	name := c.define(heapKey(elemSort), c.heapSortOf(elemSort), term)
	st.heaps[elemSort] = name
}

type retInfo struct {
	reach   string
	results []Val
	st      *State
	pos     token.Pos
	ord     int
	block   *ssa.BasicBlock
}

type loopInfo struct {
	header       *ssa.BasicBlock
	body         map[*ssa.BasicBlock]bool
	ord          int
	spec         *LoopSpec
	entrySt      *State
	phiNames     map[string]ssa.Value
	counter      string // term for #N: completed iterations (range loops and canonical counted loops)
	rangeIdxName string // source name of a range loop's index variable (resolves to #N at the loop head)
	parent       *loopInfo
	decPrev      []string // decreases measure at header
	visited      string
	prevVals     map[string]Val // during a back-edge check: the loop-carried variables' values at the loop head
}

type frame struct {
	c           *Ctx
	fn          *ssa.Function
	contract    *FuncContract
	vals        map[ssa.Value]Val
	reach       map[*ssa.BasicBlock]string
	outSt       map[*ssa.BasicBlock]*State
	outReach    map[*ssa.BasicBlock]string
	edge        map[[2]int]string
	loops       map[*ssa.BasicBlock]*loopInfo
	loopList    []*loopInfo
	returns     []retInfo
	deferred    []deferInfo
	recoverTerm string
	inRecovery  bool
	lastNext    map[ssa.Value]string
	safeDone    map[string][]*ssa.BasicBlock
	frameDone   map[string]bool
	assertAt    map[ssa.Instruction][]*AssertSpec
	curInstr    int
	curCall     *ssa.CallCommon
	depth       int
	top         bool
	entry       *State
	reach0      string
	name        string // obligation name prefix
	props       []string
	sites       map[string]int
	params      map[string]Val
	debug       map[string][]*ssa.DebugRef
	panicOK     string // licensed-panic condition (over entry state), "false" if none
	cur         *ssa.BasicBlock
	curReach    string
	curSt       *State
	modObjs     []modItem
	retExit     map[*ssa.BasicBlock][]*loopInfo // return blocks entered straight from a `complete ... unless` loop
	noSafety    bool
	unsupported []string
}

type modItem struct {
	sortKey string
	obj     string // object id term
	idx     string // element index term; "" = the whole object
	all     bool   // every object of the sort (opt havoc / noframe)
	objSet  string // formula over the bound variable o: o is one of the modified objects (each(x))
}

// frameFormula: every cell of hNew outside the mod items and below bound
// (lower/upper) equals hOld.
func frameFormula(key, hNew, hOld, lower, bound string, mods []modItem, isMap bool) string {
	var whole, elems []string
	for _, m := range mods {
		if m.all && m.sortKey == key {
			return "true"
		}
		if m.sortKey != key {
			continue
		}
		if m.objSet != "" {
			whole = append(whole, "(not "+m.objSet+")")
		} else if m.idx == "" {
			whole = append(whole, fmt.Sprintf("(not (= o %s))", m.obj))
		} else {
			elems = append(elems, fmt.Sprintf("(not (and (= o %s) (= i %s)))", m.obj, m.idx))
		}
	}
	guard := []string{}
	if lower != "" {
		guard = append(guard, "(> o "+lower+")")
	}
	guard = append(guard, "(< o "+bound+")")
	guard = append(guard, whole...)
	if len(elems) == 0 || isMap {
		return fmt.Sprintf("(forall ((o Int)) (! (=> %s (= (select %s o) (select %s o))) :pattern ((select %s o))))", and(guard...), hNew, hOld, hNew)
	}
	guard = append(guard, elems...)
	return fmt.Sprintf("(forall ((o Int) (i Int)) (! (=> %s (= (select (select %s o) i) (select (select %s o) i))) :pattern ((select (select %s o) i))))", and(guard...), hNew, hOld, hNew)
}

// unsup: a construct outside the supported subset. It is an engine error only
// if it is reachable: an obligation "unsupported" (claim: false under the
// current reach condition) is generated; if that is proved the construct is
// dead code under the contract's precondition.
func (fr *frame) unsup(format string, args ...interface{}) {
	msg := fmt.Sprintf(format, args...)
	fr.unsupported = append(fr.unsupported, msg)
	if fr.curReach == "" || fr.curReach == "true" || fr.cur == nil {
		fr.c.errs = append(fr.c.errs, funcDisplay(fr.fn)+": "+msg)
		return
	}
	saved := fr.sites
	o := fr.oblige("unsupported", fmt.Sprintf("b%d", fr.cur.Index), nil, "false", "construct outside the supported subset must be unreachable: "+msg, 0)
	o.Unsupported = msg
	fr.sites = saved
}

// ---------- obligations ----------

func (fr *frame) oblige(kind, label string, props []string, claim, text string, pos token.Pos) *Obligation {
	c := fr.c
	name := fr.name + "/" + kind
	if label != "" {
		name += "[" + label + "]"
	}
	fr.sites[name]++
	if n := fr.sites[name]; n > 1 {
		name = fmt.Sprintf("%s#%d", name, n)
	}
	if props == nil {
		props = fr.props
	}
	goal := implies(fr.curReach, claim)
	o := &Obligation{Name: name, Kind: kind, Props: props, Text: text, Func: funcDisplay(fr.fn), prefix: len(c.cmds), goal: goal, ctx: c}
	if pos.IsValid() {
		o.Pos = c.prog.Fset.Position(pos)
	}
	c.obls = append(c.obls, o)
	c.assume(goal)
	return o
}

func (fr *frame) safety(label, claim, text string, pos token.Pos) {
	if claim == "true" {
		return
	}
	if fr.noSafety {
		fr.c.assume(implies(fr.curReach, claim))
		return
	}
	// an identical check in a dominating block already covers this one
	key := label + "|" + claim
	for _, b := range fr.safeDone[key] {
		if fr.cur != nil && (b == fr.cur || b.Dominates(fr.cur)) {
			return
		}
	}
	if fr.cur != nil {
		if fr.safeDone == nil {
			fr.safeDone = map[string][]*ssa.BasicBlock{}
		}
		fr.safeDone[key] = append(fr.safeDone[key], fr.cur)
	}
	fr.oblige("safety", label, nil, claim, text, pos)
}

func (fr *frame) assumeR(term string) {
	fr.c.assume(implies(fr.curReach, term))
}

// ---------- values ----------

func (fr *frame) constVal(k *ssa.Const) Val {
	c := fr.c
	t := k.Type()
	if k.Value == nil {
		return Val{T: c.zero(t), Ty: t}
	}
	switch bt := t.Underlying().(type) {
	case *types.Basic:
		switch {
		case bt.Info()&types.IsBoolean != 0:
			if constant.BoolVal(k.Value) {
				return Val{T: "true", Ty: t}
			}
			return Val{T: "false", Ty: t}
		case bt.Info()&types.IsInteger != 0:
			if v, ok := constant.Int64Val(constant.ToInt(k.Value)); ok {
				return Val{T: intLit(v), Ty: t}
			}
			if u, ok := constant.Uint64Val(constant.ToInt(k.Value)); ok {
				return Val{T: fmt.Sprintf("%d", u), Ty: t}
			}
		case bt.Info()&types.IsFloat != 0:
			f, _ := constant.Float64Val(constant.ToFloat(k.Value))
			if c.mode == ModeReal {
				// keep exactness of the constant as the compiler rounds it to float64
				return Val{T: c.floatLit(f), Ty: t}
			}
			return Val{T: c.floatLit(f), Ty: t}
		case bt.Info()&types.IsString != 0:
			return Val{T: c.strLit(constant.StringVal(k.Value)), Ty: t}
		}
	}
	fr.unsup("constant %s of type %s", k, t)
	return Val{T: c.zero(t), Ty: t}
}

func (fr *frame) val(v ssa.Value) Val {
	switch x := v.(type) {
	case *ssa.Const:
		return fr.constVal(x)
	case *ssa.Function:
		return Val{T: fr.c.funcID(x), Ty: x.Type(), Clos: &closInfo{fn: x}}
	case *ssa.Global:
		return fr.globalPtr(x)
	case *ssa.Builtin:
		return Val{T: "0", Ty: x.Type()}
	}
	if r, ok := fr.vals[v]; ok {
		return r
	}
	fr.unsup("value %s (%T) used before definition", v.Name(), v)
	return Val{T: fr.c.declConst("undef", fr.c.sortOf(v.Type())), Ty: v.Type()}
}

func (c *Ctx) funcID(fn *ssa.Function) string {
	key := "fn:" + fn.String()
	name := "fn_" + sanitize(fn.String())
	if !c.declared[key] {
		c.declared[key] = true
		id := 0
		for k := range c.declared {
			if strings.HasPrefix(k, "fn:") {
				id++
			}
		}
		c.decl(fmt.Sprintf("(define-fun %s () Int %d)", name, id))
	}
	return name
}

// globalPtr models a package-level variable as a fixed object (id derived
// from its name) in the heap of its type.
func (fr *frame) globalPtr(g *ssa.Global) Val {
	c := fr.c
	name := "glob_" + sanitize(g.Pkg.Pkg.Name()+"_"+g.Name())
	c.declOnce("glob:"+name, fmt.Sprintf("(declare-fun %s () Int)\n(assert (and (> %s 0) (< %s alloc0)))", name, name, name))
	c.globals[name] = true
	return Val{T: fmt.Sprintf("(mkptr %s 0)", name), Ty: g.Type()}
}

// ---------- memory ----------

func (fr *frame) typeAtPath(root types.Type, path []pathEl) types.Type {
	t := root
	for _, pe := range path {
		if pe.isIdx {
			t = t.Underlying().(*types.Array).Elem()
		} else {
			t = structOf(t).Field(pe.field).Type()
		}
	}
	return t
}

func (fr *frame) readPath(t types.Type, x string, path []pathEl) string {
	c := fr.c
	for _, pe := range path {
		if pe.isIdx {
			x = "(select " + x + " " + pe.idx + ")"
			t = t.Underlying().(*types.Array).Elem()
		} else {
			x = c.fieldSel(t, pe.field, x)
			t = structOf(t).Field(pe.field).Type()
		}
	}
	return x
}

func (fr *frame) writePath(t types.Type, x string, path []pathEl, v string) string {
	c := fr.c
	if len(path) == 0 {
		return v
	}
	pe := path[0]
	if pe.isIdx {
		et := t.Underlying().(*types.Array).Elem()
		inner := fr.writePath(et, "(select "+x+" "+pe.idx+")", path[1:], v)
		return "(store " + x + " " + pe.idx + " " + inner + ")"
	}
	ft := structOf(t).Field(pe.field).Type()
	inner := fr.writePath(ft, c.fieldSel(t, pe.field, x), path[1:], v)
	return c.structUpdate(t, pe.field, x, inner)
}

func (fr *frame) rootTy(p Val) types.Type {
	if p.RootTy != nil {
		return p.RootTy
	}
	return p.Ty.Underlying().(*types.Pointer).Elem()
}

// load reads through a pointer value.
func (fr *frame) load(st *State, p Val, pos token.Pos) Val {
	c := fr.c
	rt := fr.rootTy(p)
	resTy := fr.typeAtPath(rt, p.Path)
	var root string
	if p.Local != nil {
		var ok bool
		root, ok = st.locals[p.Local]
		if !ok {
			root = c.zero(rt)
		}
	} else {
		es := c.hk(rt)
		root = c.rd(c.heap(st, es), c.acc("pobj", p.T), c.acc("pidx", p.T))
	}
	t := fr.readPath(rt, root, p.Path)
	v := Val{T: c.define("ld", c.sortOf(resTy), t), Ty: resTy}
	if p.Local == nil {
		es := c.hk(rt)
		h := c.heap(st, es)
		if _, derived := c.heapDefs[h]; !derived {
			if _, isDef := c.defs[h]; !isDef {
				// read from a declared (entry or havocked) heap: its contents are older than its bound
				b := c.heapBound[h]
				if b == "" {
					b = "alloc0"
				}
				if w := c.wfTerm(v.T, v.Ty, b, 0); w != "true" && v.Path == nil && v.Local == nil {
					fr.assumeR(w)
				}
				return v
			}
		}
	}
	fr.assumeWF(v, st)
	return v
}

func (fr *frame) store(st *State, p Val, v Val) {
	c := fr.c
	rt := fr.rootTy(p)
	if p.Local != nil {
		root, ok := st.locals[p.Local]
		if !ok {
			root = c.zero(rt)
		}
		st.locals[p.Local] = c.define("loc", c.sortOf(rt), fr.writePath(rt, root, p.Path, v.T))
		return
	}
	es := c.hk(rt)
	h := c.heap(st, es)
	obj, idx := c.acc("pobj", p.T), c.acc("pidx", p.T)
	var newRoot string
	if len(p.Path) == 0 {
		newRoot = v.T
	} else {
		newRoot = fr.writePath(rt, c.rd(h, obj, idx), p.Path, v.T)
	}
	c.wrElem(st, es, obj, idx, c.define("st", baseSort(es), newRoot))
}

// assumeWF assumes well-formedness / allocatedness of a value of reference type.
func (fr *frame) assumeWF(v Val, st *State) {
	if v.Local != nil || v.Path != nil {
		return
	}
	w := fr.c.wfTerm(v.T, v.Ty, st.alloc, 0)
	if w != "true" {
		fr.assumeR(w)
	}
}

func (c *Ctx) wfTerm(x string, t types.Type, alloc string, depth int) string {
	if depth > 3 {
		return "true"
	}
	switch tt := t.Underlying().(type) {
	case *types.Slice:
		return fmt.Sprintf("(and (wfslice %s) (< (sobj %s) %s))", x, x, alloc)
	case *types.Pointer:
		return fmt.Sprintf("(and (>= (pobj %s) 0) (< (pobj %s) %s) (>= (pidx %s) 0) (=> (= (pobj %s) 0) (= (pidx %s) 0)))", x, x, alloc, x, x, x)
	case *types.Struct:
		var parts []string
		for i := 0; i < tt.NumFields(); i++ {
			parts = append(parts, c.wfTerm(c.fieldSel(t, i, x), tt.Field(i).Type(), alloc, depth+1))
		}
		return and(parts...)
	case *types.Basic:
		if tt.Info()&types.IsUnsigned != 0 {
			hi := unsignedMax(tt)
			if hi != "" {
				return fmt.Sprintf("(and (>= %s 0) (<= %s %s))", x, x, hi)
			}
			return fmt.Sprintf("(>= %s 0)", x)
		}
		if tt.Info()&types.IsInteger != 0 {
			switch tt.Kind() {
			case types.Int8:
				return fmt.Sprintf("(and (>= %s (- 128)) (<= %s 127))", x, x)
			case types.Int16:
				return fmt.Sprintf("(and (>= %s (- 32768)) (<= %s 32767))", x, x)
			case types.Int32:
				return fmt.Sprintf("(and (>= %s (- 2147483648)) (<= %s 2147483647))", x, x)
			}
		}
	case *types.Map, *types.Signature, *types.Chan:
		return fmt.Sprintf("(and (>= %s 0) (< %s %s))", x, x, alloc)
	}
	return "true"
}

func unsignedMax(b *types.Basic) string {
	switch b.Kind() {
	case types.Uint8:
		return "255"
	case types.Uint16:
		return "65535"
	case types.Uint32:
		return "4294967295"
	case types.Uint64, types.Uint, types.Uintptr:
		return "18446744073709551615"
	}
	return ""
}

// allocObj allocates a fresh object id.
func (fr *frame) allocObj(st *State, what string) string {
	c := fr.c
	obj := c.declConst("obj_"+what, "Int")
	fr.c.assume(fmt.Sprintf("(>= %s %s)", obj, st.alloc))
	na := c.define("alloc", "Int", fmt.Sprintf("(+ %s 1)", obj))
	st.alloc = na
	return obj
}

// ---------- running a function ----------

func (c *Ctx) newFrame(fn *ssa.Function, contract *FuncContract, depth int) *frame {
	fr := &frame{c: c, fn: fn, contract: contract, vals: map[ssa.Value]Val{}, reach: map[*ssa.BasicBlock]string{}, outSt: map[*ssa.BasicBlock]*State{}, outReach: map[*ssa.BasicBlock]string{}, edge: map[[2]int]string{}, loops: map[*ssa.BasicBlock]*loopInfo{}, depth: depth, sites: map[string]int{}, params: map[string]Val{}, debug: map[string][]*ssa.DebugRef{}, panicOK: "false", lastNext: map[ssa.Value]string{}, frameDone: map[string]bool{}, curInstr: -1}
	for _, b := range fn.Blocks {
		for _, ins := range b.Instrs {
			if d, ok := ins.(*ssa.DebugRef); ok {
				if id, ok := d.Expr.(interface{ String() string }); ok {
					_ = id
				}
				if obj := d.Object(); obj != nil {
					if v, isVar := obj.(*types.Var); isVar && v.IsField() {
						continue // x.f: the selector's field is not a variable named f
					}
					if _, isFunc := obj.(*types.Func); isFunc {
						continue // pkg.F / x.M: a callee is not a variable
					}
					fr.debug[obj.Name()] = append(fr.debug[obj.Name()], d)
				} else if d.Expr != nil {
					// expression reference: indexed by its source text, e.g. `p2.Polygons()`
					if txt := c.prog.exprText(d.Expr.Pos(), d.Expr.End()); txt != "" {
						key := "`" + txt + "`"
						fr.debug[key] = append(fr.debug[key], d)
					}
				}
			}
		}
	}
	return fr
}

func isBackEdge(from, to *ssa.BasicBlock) bool { return to.Dominates(from) }

func (fr *frame) findLoops() {
	fn := fr.fn
	for _, b := range fn.Blocks {
		for _, s := range b.Succs {
			if isBackEdge(b, s) {
				li := fr.loops[s]
				if li == nil {
					li = &loopInfo{header: s, body: map[*ssa.BasicBlock]bool{s: true}, phiNames: map[string]ssa.Value{}}
					fr.loops[s] = li
				}
				// body: nodes reaching b without passing through s
				var stack []*ssa.BasicBlock
				if !li.body[b] {
					li.body[b] = true
					stack = append(stack, b)
				}
				for len(stack) > 0 {
					x := stack[len(stack)-1]
					stack = stack[:len(stack)-1]
					for _, p := range x.Preds {
						if !li.body[p] {
							li.body[p] = true
							stack = append(stack, p)
						}
					}
				}
			}
		}
	}
	var hs []*ssa.BasicBlock
	for h := range fr.loops {
		hs = append(hs, h)
	}
	sort.Slice(hs, func(i, j int) bool { return hs[i].Index < hs[j].Index })
	for i, h := range hs {
		li := fr.loops[h]
		li.ord = i + 1
		fr.loopList = append(fr.loopList, li)
		if fr.contract != nil {
			for _, ls := range fr.contract.Loops {
				if ls.N == li.ord {
					li.spec = ls
				}
			}
		}
	}
	// parents: smallest enclosing loop
	for _, li := range fr.loopList {
		for _, lj := range fr.loopList {
			if li != lj && lj.body[li.header] && len(lj.body) > len(li.body) {
				if li.parent == nil || len(lj.body) < len(li.parent.body) {
					li.parent = lj
				}
			}
		}
	}
}

func (fr *frame) order() []*ssa.BasicBlock {
	seen := map[*ssa.BasicBlock]bool{}
	var post []*ssa.BasicBlock
	var dfs func(b *ssa.BasicBlock)
	dfs = func(b *ssa.BasicBlock) {
		seen[b] = true
		for i := len(b.Succs) - 1; i >= 0; i-- {
			s := b.Succs[i]
			if isBackEdge(b, s) || seen[s] {
				continue
			}
			dfs(s)
		}
		post = append(post, b)
	}
	dfs(fr.fn.Blocks[0])
	for i, j := 0, len(post)-1; i < j; i, j = i+1, j-1 {
		post[i], post[j] = post[j], post[i]
	}
	return post
}

// mergeStates merges predecessor states under edge conditions.
func (fr *frame) mergeStates(conds []string, sts []*State) *State {
	c := fr.c
	if len(sts) > 1 {
		// predecessors whose edge condition is literally false do not take part in the merge
		var cs2 []string
		var ss2 []*State
		for i, s := range sts {
			if i < len(conds) && c.unfold(conds[i]) == "false" {
				continue
			}
			ss2 = append(ss2, s)
			if i < len(conds) {
				cs2 = append(cs2, conds[i])
			}
		}
		if len(ss2) >= 1 && len(ss2) < len(sts) {
			conds, sts = cs2, ss2
		}
	}
	if len(sts) == 1 {
		return sts[0].clone()
	}
	out := &State{heaps: map[string]string{}, locals: map[*ssa.Alloc]string{}, ghost: map[string]string{}}
	mergeTerm := func(sortS string, get func(s *State) string) string {
		first := get(sts[0])
		same := true
		for _, s := range sts[1:] {
			if get(s) != first {
				same = false
			}
		}
		if same {
			return first
		}
		t := get(sts[len(sts)-1])
		for i := len(sts) - 2; i >= 0; i-- {
			t = ite(conds[i], get(sts[i]), t)
		}
		return c.define("mrg", sortS, t)
	}
	out.alloc = mergeTerm("Int", func(s *State) string { return s.alloc })
	keys := map[string]bool{}
	for _, s := range sts {
		for k := range s.heaps {
			keys[k] = true
		}
	}
	var ks []string
	for k := range keys {
		ks = append(ks, k)
	}
	sort.Strings(ks)
	for _, k := range ks {
		k := k
		out.heaps[k] = mergeTerm(c.heapSortOf(k), func(s *State) string { return c.heap(s, k) })
		// a merge of heaps that all agree with the entry heap on old objects agrees too
		entry := heapKey(k) + "_0"
		all := true
		for _, s := range sts {
			h := c.heap(s, k)
			if h != entry && c.oldSame[h] != entry {
				all = false
			}
		}
		if all && out.heaps[k] != entry {
			c.oldSame[out.heaps[k]] = entry
		}
	}
	lkeys := map[*ssa.Alloc]bool{}
	for _, s := range sts {
		for k := range s.locals {
			lkeys[k] = true
		}
	}
	for k := range lkeys {
		k := k
		rt := k.Type().Underlying().(*types.Pointer).Elem()
		out.locals[k] = mergeTerm(c.sortOf(rt), func(s *State) string {
			if v, ok := s.locals[k]; ok {
				return v
			}
			return c.zero(rt)
		})
	}
	gk := map[string]bool{}
	for _, s := range sts {
		for k := range s.ghost {
			gk[k] = true
		}
	}
	for k := range gk {
		k := k
		out.ghost[k] = mergeTerm("Int", func(s *State) string {
			if v, ok := s.ghost[k]; ok {
				return v
			}
			return k + "_0"
		})
	}
	return out
}

// run symbolically executes fr.fn from the given entry state.
func (fr *frame) run(args []Val, st0 *State, reach0 string) {
	c := fr.c
	fn := fr.fn
	if len(fn.Blocks) == 0 {
		fr.unsup("function %s has no body", fn)
		return
	}
	fr.entry = st0
	fr.reach0 = reach0
	for i, p := range fn.Params {
		fr.vals[p] = args[i]
		fr.params[p.Name()] = args[i]
	}
	fr.findLoops()
	if fr.top {
		fr.locateAsserts()
	}
	for _, b := range fr.order() {
		var reach string
		var st *State
		if b.Index == 0 {
			reach = reach0
			st = st0.clone()
		} else {
			var conds []string
			var sts []*State
			var preds []*ssa.BasicBlock
			for _, p := range b.Preds {
				if isBackEdge(p, b) {
					continue
				}
				ec, ok := fr.edge[[2]int{p.Index, b.Index}]
				if !ok {
					continue
				}
				conds = append(conds, ec)
				sts = append(sts, fr.outSt[p])
				preds = append(preds, p)
			}
			if len(conds) == 0 {
				continue
			}
			reach = c.define(fmt.Sprintf("reach_b%d", b.Index), "Bool", or(conds...))
			st = fr.mergeStates(conds, sts)
			// phis (non-loop-header): merge incoming values
			if fr.loops[b] == nil {
				for _, ins := range b.Instrs {
					phi, ok := ins.(*ssa.Phi)
					if !ok {
						break
					}
					fr.vals[phi] = fr.mergePhi(phi, b, preds, conds)
				}
			} else {
				fr.cur, fr.curReach, fr.curSt = b, reach, st
				fr.enterLoop(fr.loops[b], preds, conds, st)
			}
		}
		fr.reach[b] = reach
		fr.cur, fr.curReach, fr.curSt = b, reach, st
		fr.execBlock(b, st)
		fr.outSt[b] = st
	}
}

func (fr *frame) mergePhi(phi *ssa.Phi, b *ssa.BasicBlock, preds []*ssa.BasicBlock, conds []string) Val {
	c := fr.c
	var vs []Val
	for _, p := range preds {
		for i, bp := range b.Preds {
			if bp == p {
				vs = append(vs, fr.val(phi.Edges[i]))
				break
			}
		}
	}
	allSame := true
	for _, v := range vs[1:] {
		if v.T != vs[0].T || len(v.Path) != len(vs[0].Path) || v.Local != vs[0].Local {
			allSame = false
		}
	}
	if allSame {
		return vs[0]
	}
	for _, v := range vs {
		if v.Path != nil || v.Local != nil {
			fr.unsup("phi %s merges pointers with static paths", phi.Name())
			return vs[0]
		}
	}
	t := vs[len(vs)-1].T
	for i := len(vs) - 2; i >= 0; i-- {
		t = ite(conds[i], vs[i].T, t)
	}
	return Val{T: c.define("phi_"+phi.Name(), c.sortOf(phi.Type()), t), Ty: phi.Type()}
}

// writeKeysOfLoop: heap sorts and local cells possibly written in the loop body.
func (fr *frame) loopWrites(li *loopInfo) (map[string]bool, map[*ssa.Alloc]bool, bool) {
	keys := map[string]bool{}
	locals := map[*ssa.Alloc]bool{}
	allocs := false
	for b := range li.body {
		for _, ins := range b.Instrs {
			fr.c.instrWrites(ins, keys, locals, &allocs, map[*ssa.Function]bool{fr.fn: true}, fr)
		}
	}
	for k := range keys {
		if strings.HasPrefix(k, "+") {
			delete(keys, k)
		}
	}
	for k := range keys {
		parts := strings.Split(k, "!")
		if len(parts) == 3 && parts[0] == "map" {
			delete(keys, k)
			fr.c.heapSorts[k+"!dom"] = "(Array Int (Array " + parts[1] + " Bool))"
			fr.c.heapSorts[k+"!val"] = "(Array Int (Array " + parts[1] + " " + mapValSort(parts[2]) + "))"
			keys[k+"!dom"] = true
			keys[k+"!val"] = true
		}
	}
	if keys["*"] {
		delete(keys, "*")
		for k := range fr.curSt.heaps {
			keys[k] = true
		}
		fr.unsup("loop %d calls a function with unknown effects", li.ord)
	}
	return keys, locals, allocs
}

func (fr *frame) enterLoop(li *loopInfo, preds []*ssa.BasicBlock, conds []string, st *State) {
	c := fr.c
	b := li.header
	// incoming phi values from entry edges
	phiIn := map[*ssa.Phi]Val{}
	var phis []*ssa.Phi
	for _, ins := range b.Instrs {
		phi, ok := ins.(*ssa.Phi)
		if !ok {
			break
		}
		phis = append(phis, phi)
		phiIn[phi] = fr.mergePhi(phi, b, preds, conds)
	}
	li.entrySt = st.clone()
	keys, locals, allocs := fr.loopWrites(li)
	var ks []string
	for k := range keys {
		ks = append(ks, k)
	}
	sort.Strings(ks)
	// 1. invariants on entry
	for _, phi := range phis {
		fr.vals[phi] = phiIn[phi]
	}
	fr.setCounter(li, phis)
	for _, k := range ks {
		ft := fr.frameTerm(k, c.heap(st, k), c.heap(fr.entry, k), "alloc0")
		if ft != "true" {
			fr.oblige("inv_init", fmt.Sprintf("loop%d:frame:%s", li.ord, sanitize(k)), nil, ft, "objects allocated before the call and not in the modifies set are unchanged", b.Instrs[0].Pos())
		}
	}
	fr.checkInvariants(li, st, "inv_init")
	// 2. havoc
	if allocs {
		na := c.declConst("alloc_loop", "Int")
		fr.assumeR(fmt.Sprintf("(>= %s %s)", na, st.alloc))
		st.alloc = na
	}
	for _, k := range ks {
		st.heaps[k] = c.newHeapConst(k, "_loop", st.alloc)
		fr.markOldSame(k, st.heaps[k])
	}
	for a := range locals {
		rt := a.Type().Underlying().(*types.Pointer).Elem()
		st.locals[a] = c.declConst("loc_"+sanitize(a.Comment), c.sortOf(rt))
	}
	for _, phi := range phis {
		v := Val{T: c.declConst("phi_"+phi.Name()+"_"+sanitize(phi.Comment), c.sortOf(phi.Type())), Ty: phi.Type()}
		fr.vals[phi] = v
		fr.assumeWF(v, st)
		// syntactic monotone counter: phi = init; back value = phi + const>0
		fr.assumeCounterBound(li, phi, phiIn[phi], v)
	}
	fr.setCounter(li, phis)
	// automatic frame invariant: objects that existed at function entry and are
	// not in the modifies set keep their contents (proved inductively)
	for _, k := range ks {
		fr.assumeR(fr.frameTerm(k, st.heaps[k], c.heap(fr.entry, k), "alloc0")) // assumed here, proved at back edges + init below
	}
	// 3. assume invariants
	fr.assumeInvariants(li, st)
	if li.spec != nil && len(li.spec.Decreases) > 0 {
		env := fr.specEnv(st, li)
		li.decPrev = nil
		for _, d := range li.spec.Decreases {
			v := env.tr(d)
			li.decPrev = append(li.decPrev, c.define("dec", "Int", v.T))
		}
	}
}

// frameTerm: forall o: 0<o<bound && o not modified => Hnew[o] == Hold[o]
func (fr *frame) frameTerm(key, hNew, hOld, bound string) string {
	if hNew == hOld {
		return "true"
	}
	return frameFormula(key, hNew, hOld, "0", bound, fr.modObjs, strings.HasPrefix(key, "map!"))
}

func (fr *frame) assumeCounterBound(li *loopInfo, phi *ssa.Phi, init Val, cur Val) {
	if bt, ok := phi.Type().Underlying().(*types.Basic); !ok || bt.Info()&types.IsInteger == 0 {
		return
	}
	// all back-edge values must be phi + positive const
	b := li.header
	okAll := false
	for i, p := range b.Preds {
		if !isBackEdge(p, b) {
			continue
		}
		bo, ok := phi.Edges[i].(*ssa.BinOp)
		if !ok || bo.Op != token.ADD {
			return
		}
		k, ok := bo.Y.(*ssa.Const)
		if !ok || bo.X != ssa.Value(phi) || k.Value == nil {
			return
		}
		if v, ok := constant.Int64Val(constant.ToInt(k.Value)); !ok || v <= 0 {
			return
		}
		okAll = true
	}
	if okAll {
		fr.assumeR(fmt.Sprintf("(>= %s %s)", cur.T, init.T))
	}
}

func (fr *frame) setCounter(li *loopInfo, phis []*ssa.Phi) {
	li.counter = ""
	li.rangeIdxName = ""
	for _, phi := range phis {
		li.phiNames[phi.Comment] = phi
		if phi.Comment == "rangeindex" {
			li.counter = "(+ " + fr.vals[phi].T + " 1)"
			li.rangeIdxName = fr.rangeIndexVarName(phi)
		}
	}
	if li.counter != "" {
		return
	}
	// A counted loop `for i := 0; ...; i++` (one integer phi starting at an integer constant and
	// stepping by the constant 1 on every back edge) has the same number of completed iterations
	// as the range loop a maintainer may turn it into, and vice versa: `#N` denotes it in both forms.
	var cand *ssa.Phi
	var candInit int64
	for _, phi := range phis {
		if bt, ok := phi.Type().Underlying().(*types.Basic); !ok || bt.Info()&types.IsInteger == 0 {
			continue
		}
		ok := true
		seenBack := false
		var init int64
		for i, p := range li.header.Preds {
			if isBackEdge(p, li.header) {
				bo, isBin := phi.Edges[i].(*ssa.BinOp)
				k, _ := func() (*ssa.Const, bool) {
					if !isBin {
						return nil, false
					}
					c, ok := bo.Y.(*ssa.Const)
					return c, ok
				}()
				if !isBin || bo.Op != token.ADD || bo.X != ssa.Value(phi) || k == nil || k.Value == nil {
					ok = false
					break
				}
				if v, exact := constant.Int64Val(constant.ToInt(k.Value)); !exact || v != 1 {
					ok = false
					break
				}
				seenBack = true
			} else {
				k, isConst := phi.Edges[i].(*ssa.Const)
				if !isConst || k.Value == nil {
					ok = false
					break
				}
				v, exact := constant.Int64Val(constant.ToInt(k.Value))
				if !exact {
					ok = false
					break
				}
				init = v
			}
		}
		if ok && seenBack {
			if cand != nil {
				return // two candidates: ambiguous, no counter
			}
			cand = phi
			candInit = init
		}
	}
	if cand != nil && candInit != 0 && fr.loopUsesRebasedIndex(li, cand, candInit) {
		// `for i := 1; i < len(xs); i++ { … xs[i-1], xs[i] … }`: the index is re-based, the body works
		// with i-1; completed iterations = i - 1 is then also "segments processed".
		li.counter = fmt.Sprintf("(- %s %s)", fr.vals[cand].T, intLit(candInit))
		return
	}
	if cand != nil && candInit == 0 {
		// Only loops that start at 0: a loop that starts at 1 has usually had its first iteration
		// peeled off (`acc = xs[0]; for i := 1; ...`), and then "completed iterations" is no longer
		// "elements processed", which is what invariants written with #N mean. Giving #N a value
		// there turned an undecided case into a false alarm (computeBoundingBox, see DESIGN §9).
		li.counter = fr.vals[cand].T
	}
}

// rangeIndexVarName: the source name of the index variable of a range loop (`for i, x := range xs`),
// found as the debug reference to rangeindex+1 in the loop; "" when the loop has none (`for _, x :=`).
func (fr *frame) rangeIndexVarName(phi *ssa.Phi) string {
	for _, r := range *phi.Referrers() {
		bo, ok := r.(*ssa.BinOp)
		if !ok || bo.Op != token.ADD || bo.X != ssa.Value(phi) {
			continue
		}
		for name, refs := range fr.debug {
			for _, d := range refs {
				if d.X == ssa.Value(bo) && !d.IsAddr {
					return name
				}
			}
		}
	}
	return ""
}

func (fr *frame) checkInvariants(li *loopInfo, st *State, kind string) {
	if li.spec == nil {
		return
	}
	env := fr.specEnv(st, li)
	for _, inv := range li.spec.Invs {
		v := env.trBool(inv.Expr)
		label := inv.Label
		if label == "" {
			label = fmt.Sprintf("loop%d", li.ord)
		} else {
			label = fmt.Sprintf("loop%d:%s", li.ord, label)
		}
		o := fr.oblige(kind, label, propsOr(inv.Props, fr.props), v, inv.Text, li.header.Instrs[0].Pos())
		o.Using, o.Extra = fr.c.splitUsing(env, inv.Using)
	}
}

func propsOr(a, b []string) []string {
	if len(a) > 0 {
		return a
	}
	return b
}

func (fr *frame) assumeInvariants(li *loopInfo, st *State) {
	if li.spec == nil {
		return
	}
	env := fr.specEnv(st, li)
	for _, inv := range li.spec.Invs {
		fr.assumeR(env.trBool(inv.Expr))
	}
}

// backEdge: check invariants are preserved along edge from b to header.
func (fr *frame) backEdge(b *ssa.BasicBlock, li *loopInfo, st *State, cond string) {
	c := fr.c
	h := li.header
	saved := map[*ssa.Phi]Val{}
	var phis []*ssa.Phi
	var predIdx int
	for i, p := range h.Preds {
		if p == b {
			predIdx = i
		}
	}
	for _, ins := range h.Instrs {
		phi, ok := ins.(*ssa.Phi)
		if !ok {
			break
		}
		phis = append(phis, phi)
		saved[phi] = fr.vals[phi]
	}
	newVals := map[*ssa.Phi]Val{}
	for _, phi := range phis {
		newVals[phi] = fr.val(phi.Edges[predIdx])
	}
	li.prevVals = map[string]Val{}
	for _, phi := range phis {
		li.prevVals[phi.Comment] = saved[phi]
	}
	for _, phi := range phis {
		fr.vals[phi] = newVals[phi]
	}
	savedReach := fr.curReach
	savedCounter := li.counter
	fr.curReach = cond
	fr.setCounter(li, phis)
	// auto frame invariant
	keys, _, _ := fr.loopWrites(li)
	var ks []string
	for k := range keys {
		ks = append(ks, k)
	}
	sort.Strings(ks)
	for _, k := range ks {
		ft := fr.frameTerm(k, c.heap(st, k), c.heap(fr.entry, k), "alloc0")
		if ft != "true" {
			fr.oblige("inv_pres", fmt.Sprintf("loop%d:frame:%s", li.ord, sanitize(k)), nil, ft, "objects allocated before the call and not in the modifies set are unchanged", h.Instrs[0].Pos())
		}
	}
	fr.checkInvariants(li, st, "inv_pres")
	if li.spec != nil && len(li.spec.Decreases) > 0 {
		env := fr.specEnv(st, li)
		var cur []string
		for _, d := range li.spec.Decreases {
			cur = append(cur, env.tr(d).T)
		}
		// lexicographic decrease, bounded below by 0
		var alts []string
		for i := range cur {
			var conj []string
			for j := 0; j < i; j++ {
				conj = append(conj, fmt.Sprintf("(= %s %s)", cur[j], li.decPrev[j]))
			}
			conj = append(conj, fmt.Sprintf("(< %s %s)", cur[i], li.decPrev[i]), fmt.Sprintf("(>= %s 0)", li.decPrev[i]))
			alts = append(alts, and(conj...))
		}
		claim := or(alts...)
		if li.spec.DecWhen != nil {
			claim = implies(env.sub(fr.entry).trBool(li.spec.DecWhen), claim)
		}
		fr.oblige("decreases", fmt.Sprintf("loop%d", li.ord), nil, claim, "loop measure decreases: "+li.spec.DecText, h.Instrs[0].Pos())
	} else if li.spec == nil || len(li.spec.Decreases) == 0 {
		// termination not claimed for this loop
	}
	for _, phi := range phis {
		fr.vals[phi] = saved[phi]
	}
	li.prevVals = nil
	fr.curReach = savedReach
	li.counter = savedCounter
	for _, phi := range phis {
		li.phiNames[phi.Comment] = phi
	}
}

func (fr *frame) setEdge(from, to *ssa.BasicBlock, cond string, st *State) {
	c := fr.c
	name := c.define(fmt.Sprintf("e_%d_%d", from.Index, to.Index), "Bool", cond)
	if isBackEdge(from, to) {
		if li := fr.loops[to]; li != nil {
			fr.backEdge(from, li, st, name)
		}
		return
	}
	fr.edge[[2]int{from.Index, to.Index}] = name
	if fr.top {
		for _, li := range fr.loopList {
			if li.spec != nil && li.spec.Complete && li.body[from] && !li.body[to] && from != li.header {
				if len(to.Instrs) > 0 {
					if _, isPanic := to.Instrs[len(to.Instrs)-1].(*ssa.Panic); isPanic {
						continue // leaving by a panic is judged by the panics clauses, not as an early exit
					}
				}
				if li.spec.CompleteUnless != nil && len(to.Preds) == 1 && isReturnBlock(to) {
					// a return statement inside the loop (its block has no way back to the header, so
					// go/ssa's natural loop does not contain it): judged at the Return with `unless`
					if fr.retExit == nil {
						fr.retExit = map[*ssa.BasicBlock][]*loopInfo{}
					}
					fr.retExit[to] = append(fr.retExit[to], li)
					continue
				}
				saved := fr.curReach
				fr.curReach = "true"
				fr.oblige("loopexit", fmt.Sprintf("loop%d:%s", li.ord, li.spec.CompleteLabel), fr.props, not(name), fmt.Sprintf("loop %d is left only through its header: the exit from block %d is unreachable", li.ord, from.Index), 0)
				fr.curReach = saved
			}
		}
	}
}

func (fr *frame) execBlock(b *ssa.BasicBlock, st *State) {
	for _, ins := range b.Instrs {
		if _, ok := ins.(*ssa.Phi); ok {
			continue
		}
		if fr.top && fr.assertAt != nil {
			if as := fr.assertAt[ins]; len(as) > 0 {
				// program-point clause: names denote the variables' current values
				env := fr.specEnv(st, nil)
				fr.curInstr = instrIndex(b, ins)
				for _, a := range as {
					v := env.trBool(a.C.Expr)
					if ifIns, ok := ins.(*ssa.If); ok && a.Then {
						v = implies(fr.val(ifIns.Cond).T, v)
					}
					o := fr.oblige("assert", a.C.Label, propsOr(a.C.Props, fr.props), v, a.C.Text+"   at `"+a.Text+"`", ins.Pos())
					o.Using, o.Extra = fr.c.splitUsing(env, a.C.Using)
				}
				fr.curInstr = -1
			}
		}
		fr.execInstr(ins, st)
	}
}

func instrIndex(b *ssa.BasicBlock, ins ssa.Instruction) int {
	for k, x := range b.Instrs {
		if x == ins {
			return k
		}
	}
	return -1
}

func (fr *frame) innermostLoop(b *ssa.BasicBlock) *loopInfo {
	var best *loopInfo
	for _, li := range fr.loopList {
		if li.body[b] && (best == nil || len(li.body) < len(best.body)) {
			best = li
		}
	}
	return best
}

// locateAsserts maps assert clauses to the first instruction of the n-th
// source line (within the function) whose text contains the locator.
func (fr *frame) locateAsserts() {
	if fr.contract == nil || len(fr.contract.Asserts) == 0 {
		return
	}
	fr.assertAt = map[ssa.Instruction][]*AssertSpec{}
	type cand struct {
		line int
		ins  ssa.Instruction
	}
	P := fr.c.prog
	for _, a := range fr.contract.Asserts {
		first := map[int]ssa.Instruction{}
		var lines []int
		for _, b := range fr.fn.Blocks {
			for _, ins := range b.Instrs {
				if _, isDbg := ins.(*ssa.DebugRef); isDbg {
					continue
				}
				if _, isPhi := ins.(*ssa.Phi); isPhi {
					continue
				}
				pos := ins.Pos()
				if !pos.IsValid() {
					continue
				}
				pp := P.Fset.Position(pos)
				if !strings.Contains(P.sourceLine(pp), a.Text) {
					continue
				}
				if a.Then {
					ifIns, isIf := b.Instrs[len(b.Instrs)-1].(*ssa.If)
					if !isIf {
						continue
					}
					if _, ok := first[pp.Line]; !ok {
						lines = append(lines, pp.Line)
					}
					first[pp.Line] = ifIns // last such block wins: the final conjunct of the condition
					continue
				}
				if _, ok := first[pp.Line]; !ok {
					first[pp.Line] = ins
					lines = append(lines, pp.Line)
				}
			}
		}
		sort.Ints(lines)
		if a.Ord-1 < len(lines) {
			ins := first[lines[a.Ord-1]]
			fr.assertAt[ins] = append(fr.assertAt[ins], a)
		} else if !a.Optional {
			fr.c.errs = append(fr.c.errs, fmt.Sprintf("%s: assert [%s]: no source line #%d containing `%s`", funcDisplay(fr.fn), a.C.Label, a.Ord, a.Text))
		}
	}
}

func (fr *frame) execInstr(ins ssa.Instruction, st *State) {
	c := fr.c
	b := fr.cur
	switch x := ins.(type) {
	case *ssa.DebugRef:
	case *ssa.Alloc:
		rt := x.Type().Underlying().(*types.Pointer).Elem()
		if !x.Heap && !fr.allocNeedsHeap(x) {
			st.locals[x] = c.zero(rt)
			fr.vals[x] = Val{T: "local:" + x.Name(), Ty: x.Type(), Local: x, RootTy: rt}
			return
		}
		if at, ok := rt.Underlying().(*types.Array); ok {
			// arrays live in the element heap so that they can be sliced
			es := c.hk(at.Elem())
			obj := fr.allocObj(st, x.Name())
			c.wrObj(st, es, obj, fmt.Sprintf("((as const (Array Int %s)) %s)", baseSort(es), c.zero(at.Elem())))
			fr.vals[x] = Val{T: fmt.Sprintf("(mkptr %s 0)", obj), Ty: x.Type()}
			return
		}
		es := c.hk(rt)
		obj := fr.allocObj(st, x.Name())
		c.wrElem(st, es, obj, "0", c.zero(rt))
		fr.vals[x] = Val{T: c.define("new_"+x.Name(), "Ptr", fmt.Sprintf("(mkptr %s 0)", obj)), Ty: x.Type()}
	case *ssa.FieldAddr:
		p := fr.val(x.X)
		if p.Local == nil {
			fr.safety("nil", fmt.Sprintf("(not (= (pobj %s) 0))", p.T), "nil pointer dereference: "+c.prog.sourceLine(c.prog.Fset.Position(x.Pos())), x.Pos())
		}
		np := Val{T: p.T, Ty: x.Type(), Path: append(append([]pathEl{}, p.Path...), pathEl{field: x.Field}), RootTy: fr.rootTy(p), Local: p.Local}
		fr.vals[x] = np
	case *ssa.Field:
		s := fr.val(x.X)
		ft := structOf(x.X.Type()).Field(x.Field).Type()
		fr.vals[x] = Val{T: c.fieldSel(x.X.Type(), x.Field, s.T), Ty: ft}
	case *ssa.IndexAddr:
		fr.execIndexAddr(x, st)
	case *ssa.Index:
		fr.execIndex(x, st)
	case *ssa.UnOp:
		fr.execUnOp(x, st)
	case *ssa.BinOp:
		fr.vals[x] = fr.binop(x.Op, fr.val(x.X), fr.val(x.Y), x.Type(), x.Pos())
	case *ssa.Store:
		p := fr.val(x.Addr)
		if p.Local == nil && len(p.Path) == 0 {
			fr.safety("nil", fmt.Sprintf("(not (= (pobj %s) 0))", p.T), "nil pointer dereference (store)", x.Pos())
		}
		fr.store(st, p, fr.val(x.Val))
	case *ssa.Phi:
	case *ssa.Jump:
		fr.setEdge(b, b.Succs[0], fr.curReach, st)
	case *ssa.If:
		cv := fr.val(x.Cond)
		fr.setEdge(b, b.Succs[0], and(fr.curReach, cv.T), st)
		fr.setEdge(b, b.Succs[1], and(fr.curReach, not(cv.T)), st)
	case *ssa.Return:
		var rs []Val
		for _, r := range x.Results {
			rs = append(rs, fr.val(r))
		}
		if fr.top {
			for _, li := range fr.loopList {
				viaExit := false
				for _, l2 := range fr.retExit[b] {
					viaExit = viaExit || l2 == li
				}
				if li.spec != nil && li.spec.Complete && (li.body[b] || viaExit) {
					claim, text := "false", fmt.Sprintf("loop %d is left only through its header: the return inside it is unreachable", li.ord)
					if li.spec.CompleteUnless != nil {
						env := fr.specEnv(st, li)
						env.results = rs
						env.resultNames = resultNames(fr.fn.Signature)
						claim = env.trBool(li.spec.CompleteUnless)
						text = fmt.Sprintf("loop %d is left through its header, or by a return with %s", li.ord, li.spec.CompleteUnlessText)
					}
					fr.oblige("loopexit", fmt.Sprintf("loop%d:%s", li.ord, li.spec.CompleteLabel), fr.props, claim, text, x.Pos())
				}
			}
		}
		fr.returns = append(fr.returns, retInfo{reach: fr.curReach, results: rs, st: st.clone(), pos: x.Pos(), ord: len(fr.returns) + 1, block: b})
	case *ssa.Panic:
		fr.execPanic(x, st)
	case *ssa.MakeInterface:
		v := fr.val(x.X)
		if v.Path != nil || v.Local != nil {
			fr.unsup("pointer with static path escapes into interface")
		}
		bv := Val{T: v.T, Ty: x.X.Type()}
		fr.vals[x] = Val{T: c.define("ifc", "Iface", fmt.Sprintf("(mkiface %s %s)", c.typeTag(x.X.Type()), c.box(x.X.Type(), v.T))), Ty: x.Type(), Boxed: &bv}
	case *ssa.ChangeInterface:
		v := fr.val(x.X)
		fr.vals[x] = Val{T: v.T, Ty: x.Type()}
	case *ssa.ChangeType:
		v := fr.val(x.X)
		if fs, ts := c.sortOf(x.X.Type()), c.sortOf(x.Type()); fs != ts {
			// conversion between distinct named struct types with identical layout
			v = Val{T: c.convertStruct(v.T, x.X.Type(), x.Type())}
		}
		v.Ty = x.Type()
		fr.vals[x] = v
	case *ssa.Convert:
		fr.execConvert(x)
	case *ssa.TypeAssert:
		fr.execTypeAssert(x, st)
	case *ssa.Extract:
		t := fr.val(x.Tuple)
		if x.Index < len(t.Tuple) {
			fr.vals[x] = t.Tuple[x.Index]
		} else {
			fr.unsup("extract from non-tuple %s", x.Tuple.Name())
			fr.vals[x] = Val{T: c.declConst("undef", c.sortOf(x.Type())), Ty: x.Type()}
		}
	case *ssa.MakeSlice:
		fr.execMakeSlice(x, st)
	case *ssa.Slice:
		fr.execSlice(x, st)
	case *ssa.Call:
		fr.execCall(x, st)
	case *ssa.MakeClosure:
		fn := x.Fn.(*ssa.Function)
		var bs []Val
		for _, bv := range x.Bindings {
			bs = append(bs, fr.val(bv))
		}
		id := fr.allocObj(st, "clos")
		fr.assumeR(fmt.Sprintf("(= (closfn %s) %s)", id, c.funcID(fn)))
		for i, bv := range bs {
			if bv.Path != nil || bv.Local != nil {
				fr.unsup("closure captures pointer with static path")
				continue
			}
			fr.assumeR(eq(c.closBinding(fn, i, id), bv.T))
		}
		fr.vals[x] = Val{T: id, Ty: x.Type(), Clos: &closInfo{fn: fn, bindings: bs}}
	case *ssa.Defer:
		fr.execDefer(x, st)
	case *ssa.RunDefers:
		fr.runDefers(st)
	case *ssa.MakeMap:
		fr.execMakeMap(x, st)
	case *ssa.MapUpdate:
		fr.execMapUpdate(x, st)
	case *ssa.Lookup:
		fr.execLookup(x, st)
	case *ssa.Range:
		fr.execRange(x, st)
	case *ssa.Next:
		fr.execNext(x, st)
	default:
		fr.unsup("instruction %T (%s)", ins, ins)
		if v, ok := ins.(ssa.Value); ok {
			fr.vals[v] = Val{T: c.declConst("undef", c.sortOf(v.Type())), Ty: v.Type()}
		}
	}
}

// convertStruct rebuilds a struct value of type from as a value of type to
// (identical underlying field layout, as Go requires for the conversion).
func (c *Ctx) convertStruct(x string, from, to types.Type) string {
	fs, ts := structOf(from), structOf(to)
	if fs == nil || ts == nil || fs.NumFields() != ts.NumFields() {
		c.errs = append(c.errs, fmt.Sprintf("unsupported conversion %s -> %s", from, to))
		return x
	}
	var args []string
	for i := 0; i < fs.NumFields(); i++ {
		f := c.fieldSel(from, i, x)
		if c.sortOf(fs.Field(i).Type()) != c.sortOf(ts.Field(i).Type()) {
			f = c.convertStruct(f, fs.Field(i).Type(), ts.Field(i).Type())
		}
		args = append(args, f)
	}
	name := c.sortOf(to)
	if len(args) == 0 {
		return "mk_" + name
	}
	return "(mk_" + name + " " + strings.Join(args, " ") + ")"
}

func (c *Ctx) closBinding(fn *ssa.Function, i int, id string) string {
	fv := fn.FreeVars[i]
	name := fmt.Sprintf("clos_%s_%d", sanitize(fn.String()), i)
	c.declOnce("closb:"+name, fmt.Sprintf("(declare-fun %s (Int) %s)", name, c.sortOf(fv.Type())))
	return "(" + name + " " + id + ")"
}

// allocNeedsHeap: a non-escaping Alloc whose address is sliced, passed to a
// call, stored or merged must live in the heap model.
func (fr *frame) allocNeedsHeap(a *ssa.Alloc) bool {
	var check func(v ssa.Value, seen map[ssa.Value]bool) bool
	check = func(v ssa.Value, seen map[ssa.Value]bool) bool {
		if seen[v] {
			return false
		}
		seen[v] = true
		refs := v.Referrers()
		if refs == nil {
			return true
		}
		for _, r := range *refs {
			switch rr := r.(type) {
			case *ssa.Store:
				if rr.Val == v {
					return true
				}
			case *ssa.UnOp, *ssa.DebugRef:
			case *ssa.FieldAddr:
				if check(rr, seen) {
					return true
				}
			case *ssa.IndexAddr:
				if check(rr, seen) {
					return true
				}
			default:
				return true
			}
		}
		return false
	}
	return check(a, map[ssa.Value]bool{})
}

func (fr *frame) execIndexAddr(x *ssa.IndexAddr, st *State) {
	c := fr.c
	base := fr.val(x.X)
	idx := fr.val(x.Index)
	switch bt := x.X.Type().Underlying().(type) {
	case *types.Slice:
		fr.safety("index", fmt.Sprintf("(and (>= %s 0) (< %s %s))", idx.T, idx.T, c.acc("slen", base.T)), "index out of range: "+c.prog.sourceLine(c.prog.Fset.Position(x.Pos())), x.Pos())
		fr.vals[x] = Val{T: c.define("ia", "Ptr", fmt.Sprintf("(mkptr %s %s)", c.acc("sobj", base.T), addOff(c.acc("soff", base.T), idx.T))), Ty: x.Type()}
	case *types.Pointer:
		at := bt.Elem().Underlying().(*types.Array)
		fr.safety("index", fmt.Sprintf("(and (>= %s 0) (< %s %d))", idx.T, idx.T, at.Len()), "array index out of range", x.Pos())
		if base.Local != nil || base.Path != nil {
			fr.vals[x] = Val{T: base.T, Ty: x.Type(), Local: base.Local, RootTy: fr.rootTy(base), Path: append(append([]pathEl{}, base.Path...), pathEl{isIdx: true, idx: idx.T})}
			return
		}
		// heap array object in element heap
		fr.vals[x] = Val{T: c.define("ia", "Ptr", fmt.Sprintf("(mkptr %s %s)", c.acc("pobj", base.T), addOff(c.acc("pidx", base.T), idx.T))), Ty: x.Type()}
	default:
		fr.unsup("IndexAddr on %s", x.X.Type())
	}
}

func (fr *frame) execIndex(x *ssa.Index, st *State) {
	c := fr.c
	base := fr.val(x.X)
	idx := fr.val(x.Index)
	switch bt := x.X.Type().Underlying().(type) {
	case *types.Array:
		fr.safety("index", fmt.Sprintf("(and (>= %s 0) (< %s %d))", idx.T, idx.T, bt.Len()), "array index out of range", x.Pos())
		fr.vals[x] = Val{T: fmt.Sprintf("(select %s %s)", base.T, idx.T), Ty: x.Type()}
	case *types.Basic:
		// string index
		fr.safety("index", fmt.Sprintf("(and (>= %s 0) (< %s (strlen %s)))", idx.T, idx.T, base.T), "string index out of range", x.Pos())
		c.declOnce("strat", "(declare-fun strat (Str Int) Int)\n(assert (forall ((s Str) (i Int)) (! (and (>= (strat s i) 0) (<= (strat s i) 255)) :pattern ((strat s i)))))")
		fr.vals[x] = Val{T: fmt.Sprintf("(strat %s %s)", base.T, idx.T), Ty: x.Type()}
	default:
		fr.unsup("Index on %s", x.X.Type())
		fr.vals[x] = Val{T: c.declConst("undef", c.sortOf(x.Type())), Ty: x.Type()}
	}
}

func (fr *frame) execUnOp(x *ssa.UnOp, st *State) {
	c := fr.c
	v := fr.val(x.X)
	switch x.Op {
	case token.MUL:
		if g, ok := x.X.(*ssa.Global); ok && g.Name() == "init$guard" && isPkgInit(fr.fn) {
			// the package initialiser is analysed for its first (only effective) run
			fr.vals[x] = Val{T: "false", Ty: x.Type()}
			return
		}
		if v.Local == nil && len(v.Path) == 0 {
			fr.safety("nil", fmt.Sprintf("(not (= (pobj %s) 0))", v.T), "nil pointer dereference: "+c.prog.sourceLine(c.prog.Fset.Position(x.Pos())), x.Pos())
		}
		if at, ok := fr.rootTy(v).Underlying().(*types.Array); ok && v.Local == nil && len(v.Path) == 0 {
			_ = at
			fr.unsup("load of whole heap array")
		}
		fr.vals[x] = fr.load(st, v, x.Pos())
	case token.NOT:
		fr.vals[x] = Val{T: not(v.T), Ty: x.Type()}
	case token.SUB:
		if isFloat(x.Type()) {
			fr.vals[x] = Val{T: c.fneg(v.T), Ty: x.Type()}
		} else {
			fr.vals[x] = Val{T: fr.wrapInt("(- "+v.T+")", x.Type()), Ty: x.Type()}
		}
	case token.XOR:
		fr.unsup("bitwise complement")
		fr.vals[x] = Val{T: c.declConst("undef", "Int"), Ty: x.Type()}
	default:
		fr.unsup("unop %s", x.Op)
	}
}

func isFloat(t types.Type) bool {
	b, ok := t.Underlying().(*types.Basic)
	return ok && b.Info()&types.IsFloat != 0
}
func isInteger(t types.Type) bool {
	b, ok := t.Underlying().(*types.Basic)
	return ok && b.Info()&types.IsInteger != 0
}
func isString(t types.Type) bool {
	b, ok := t.Underlying().(*types.Basic)
	return ok && b.Info()&types.IsString != 0
}
func isBool(t types.Type) bool {
	b, ok := t.Underlying().(*types.Basic)
	return ok && b.Info()&types.IsBoolean != 0
}

// wrapInt applies modular wrap-around for fixed-width unsigned types; other
// integer types are mathematical (assumption A-INT).
func (fr *frame) wrapInt(term string, t types.Type) string {
	if b, ok := t.Underlying().(*types.Basic); ok && b.Info()&types.IsUnsigned != 0 {
		switch b.Kind() {
		case types.Uint8:
			return "(mod " + term + " 256)"
		case types.Uint16:
			return "(mod " + term + " 65536)"
		case types.Uint32:
			return "(mod " + term + " 4294967296)"
		case types.Uint64, types.Uint, types.Uintptr:
			return "(mod " + term + " 18446744073709551616)"
		}
	}
	return term
}

func (fr *frame) binop(op token.Token, a, b Val, resTy types.Type, pos token.Pos) Val {
	c := fr.c
	t := a.Ty
	switch op {
	case token.ADD, token.SUB, token.MUL, token.QUO, token.REM:
		if isFloat(t) {
			return Val{T: c.define("f", "F", c.fbin(op.String(), a.T, b.T)), Ty: resTy}
		}
		if isString(t) && op == token.ADD {
			c.declOnce("strcat", "(declare-fun strcat (Str Str) Str)\n(assert (forall ((a Str) (b Str)) (! (= (strlen (strcat a b)) (+ (strlen a) (strlen b))) :pattern ((strcat a b)))))")
			return Val{T: "(strcat " + a.T + " " + b.T + ")", Ty: resTy}
		}
		switch op {
		case token.ADD, token.SUB, token.MUL:
			return Val{T: fr.wrapInt("("+op.String()+" "+a.T+" "+b.T+")", resTy), Ty: resTy}
		case token.QUO:
			fr.safety("divzero", "(not (= "+b.T+" 0))", "integer division by zero", pos)
			// Go truncates toward zero
			q := fmt.Sprintf("(ite (>= %s 0) (div %s %s) (- (div (- %s) %s)))", a.T, a.T, b.T, a.T, b.T)
			return Val{T: c.define("q", "Int", q), Ty: resTy}
		case token.REM:
			fr.safety("divzero", "(not (= "+b.T+" 0))", "integer division by zero", pos)
			r := fmt.Sprintf("(ite (>= %s 0) (mod %s (abs %s)) (- (mod (- %s) (abs %s))))", a.T, a.T, b.T, a.T, b.T)
			return Val{T: c.define("r", "Int", r), Ty: resTy}
		}
	case token.EQL:
		return Val{T: c.goEq(t, a.T, b.T), Ty: resTy}
	case token.NEQ:
		return Val{T: not(c.goEq(t, a.T, b.T)), Ty: resTy}
	case token.LSS, token.LEQ, token.GTR, token.GEQ:
		if isFloat(t) {
			return Val{T: c.fcmp(op.String(), a.T, b.T), Ty: resTy}
		}
		if isString(t) {
			c.declOnce("strlt", "(declare-fun strlt (Str Str) Bool)")
			switch op {
			case token.LSS:
				return Val{T: "(strlt " + a.T + " " + b.T + ")", Ty: resTy}
			case token.GTR:
				return Val{T: "(strlt " + b.T + " " + a.T + ")", Ty: resTy}
			case token.LEQ:
				return Val{T: "(not (strlt " + b.T + " " + a.T + "))", Ty: resTy}
			default:
				return Val{T: "(not (strlt " + a.T + " " + b.T + "))", Ty: resTy}
			}
		}
		return Val{T: "(" + op.String() + " " + a.T + " " + b.T + ")", Ty: resTy}
	case token.LAND:
		return Val{T: and(a.T, b.T), Ty: resTy}
	case token.LOR:
		return Val{T: or(a.T, b.T), Ty: resTy}
	case token.SHL:
		if k, ok := constTermInt(b.T); ok && k >= 0 && k < 63 {
			return Val{T: fr.wrapInt(fmt.Sprintf("(* %s %d)", a.T, int64(1)<<uint(k)), resTy), Ty: resTy}
		}
	case token.SHR:
		if k, ok := constTermInt(b.T); ok && k >= 0 && k < 63 {
			return Val{T: fmt.Sprintf("(div %s %d)", a.T, int64(1)<<uint(k)), Ty: resTy}
		}
	case token.AND:
		if k, ok := constTermInt(b.T); ok && k >= 0 && (k&(k+1)) == 0 {
			return Val{T: fmt.Sprintf("(mod %s %d)", a.T, k+1), Ty: resTy}
		}
	}
	fr.unsup("binop %s on %s", op, t)
	return Val{T: c.declConst("undef", c.sortOf(resTy)), Ty: resTy}
}

func constTermInt(t string) (int64, bool) {
	var v int64
	if _, err := fmt.Sscanf(t, "%d", &v); err == nil && fmt.Sprint(v) == t {
		return v, true
	}
	return 0, false
}

// goEq is Go's == on values of type t.
func (c *Ctx) goEq(t types.Type, a, b string) string {
	switch tt := t.Underlying().(type) {
	case *types.Basic:
		if tt.Info()&types.IsFloat != 0 {
			return c.fcmp("==", a, b)
		}
		return eq(a, b)
	case *types.Struct:
		var parts []string
		for i := 0; i < tt.NumFields(); i++ {
			parts = append(parts, c.goEq(tt.Field(i).Type(), c.fieldSel(t, i, a), c.fieldSel(t, i, b)))
		}
		return and(parts...)
	case *types.Array:
		if tt.Len() <= 8 {
			var parts []string
			for i := int64(0); i < tt.Len(); i++ {
				parts = append(parts, c.goEq(tt.Elem(), fmt.Sprintf("(select %s %d)", a, i), fmt.Sprintf("(select %s %d)", b, i)))
			}
			return and(parts...)
		}
	case *types.Slice:
		// only comparison with nil is legal
		if a == "nilslice" || a == "(mkslice 0 0 0 0)" {
			return fmt.Sprintf("(= (sobj %s) 0)", b)
		}
		if b == "nilslice" || b == "(mkslice 0 0 0 0)" {
			return fmt.Sprintf("(= (sobj %s) 0)", a)
		}
	case *types.Interface:
		if a == "niliface" || a == "(mkiface 0 0)" {
			return fmt.Sprintf("(= (itag %s) 0)", b)
		}
		if b == "niliface" || b == "(mkiface 0 0)" {
			return fmt.Sprintf("(= (itag %s) 0)", a)
		}
	}
	return eq(a, b)
}

func (fr *frame) execConvert(x *ssa.Convert) {
	c := fr.c
	v := fr.val(x.X)
	from, to := x.X.Type(), x.Type()
	switch {
	case isInteger(from) && isInteger(to):
		fr.vals[x] = Val{T: fr.convInt(v.T, from, to), Ty: to}
	case isInteger(from) && isFloat(to):
		switch c.mode {
		case ModeFP:
			fr.vals[x] = Val{T: "((_ to_fp 11 53) RNE (to_real " + v.T + "))", Ty: to}
		case ModeReal:
			fr.vals[x] = Val{T: "(to_real " + v.T + ")", Ty: to}
		case ModeXReal:
			fr.vals[x] = Val{T: "(xfin (to_real " + v.T + "))", Ty: to}
		default:
			fr.vals[x] = Val{T: "(flit " + v.T + ")", Ty: to}
		}
	case isFloat(from) && isFloat(to):
		fr.vals[x] = Val{T: v.T, Ty: to}
	case isFloat(from) && isInteger(to):
		switch c.mode {
		case ModeXReal:
			fr.vals[x] = Val{T: fmt.Sprintf("(ite (>= (xval %s) 0.0) (to_int (xval %s)) (- (to_int (- (xval %s)))))", v.T, v.T, v.T), Ty: to}
		case ModeReal:
			// truncation toward zero
			fr.vals[x] = Val{T: fmt.Sprintf("(ite (>= %s 0.0) (to_int %s) (- (to_int (- %s))))", v.T, v.T, v.T), Ty: to}
		default:
			fr.vals[x] = Val{T: c.ufun("f2i", "Int", []string{"F"}, v.T), Ty: to}
		}
	case isString(from) && isByteSlice(to):
		// []byte(s): a fresh slice holding the bytes of s
		c.declOnce("strat", "(declare-fun strat (Str Int) Int)\n(assert (forall ((s Str) (i Int)) (! (and (>= (strat s i) 0) (<= (strat s i) 255)) :pattern ((strat s i)))))")
		st := fr.curSt
		es := c.hk(to.Underlying().(*types.Slice).Elem())
		obj := fr.allocObj(st, x.Name())
		arr := c.declConst("strbytes", "(Array Int Int)")
		fr.assumeR(fmt.Sprintf("(forall ((i Int)) (! (= (select %s i) (strat %s i)) :pattern ((select %s i))))", arr, v.T, arr))
		c.wrObj(st, es, obj, arr)
		fr.vals[x] = Val{T: c.define("cv_"+x.Name(), "Slice", fmt.Sprintf("(mkslice %s 0 (strlen %s) (strlen %s))", obj, v.T, v.T)), Ty: to}
	case isString(to) || isString(from):
		c.assumed["string conversion (uninterpreted)"] = true
		fs, ts := c.sortOf(from), c.sortOf(to)
		fr.vals[x] = Val{T: c.ufun("conv_"+sanitize(fs)+"_"+sanitize(ts), ts, []string{fs}, v.T), Ty: to}
	default:
		// pointer / unsafe / same-underlying conversions
		if c.sortOf(from) == c.sortOf(to) {
			v.Ty = to
			fr.vals[x] = v
			return
		}
		if structOf(from) != nil && structOf(to) != nil {
			fr.vals[x] = Val{T: c.convertStruct(v.T, from, to), Ty: to}
			return
		}
		fr.unsup("convert %s -> %s", from, to)
		fr.vals[x] = Val{T: c.declConst("undef", c.sortOf(to)), Ty: to}
	}
}

func (fr *frame) convInt(term string, from, to types.Type) string {
	tb := to.Underlying().(*types.Basic)
	fb := from.Underlying().(*types.Basic)
	size := func(b *types.Basic) int {
		switch b.Kind() {
		case types.Int8, types.Uint8:
			return 8
		case types.Int16, types.Uint16:
			return 16
		case types.Int32, types.Uint32:
			return 32
		}
		return 64
	}
	ts, fs := size(tb), size(fb)
	tu, fu := tb.Info()&types.IsUnsigned != 0, fb.Info()&types.IsUnsigned != 0
	if ts > fs && (fu || !tu) {
		return term // widening keeps the value
	}
	if ts == fs && tu == fu {
		return term
	}
	if ts == 64 && !tu {
		// to int/int64 from uint64: A-INT (no overflow)
		return term
	}
	mod := new2pow(ts)
	if tu {
		if ts == 64 {
			// int -> uint64: value assumed non-negative within range (A-INT) unless negative
			return "(mod " + term + " " + mod + ")"
		}
		return "(mod " + term + " " + mod + ")"
	}
	// signed narrowing
	half := new2pow(ts - 1)
	return fmt.Sprintf("(- (mod (+ %s %s) %s) %s)", term, half, mod, half)
}

func new2pow(n int) string {
	switch n {
	case 7:
		return "128"
	case 8:
		return "256"
	case 15:
		return "32768"
	case 16:
		return "65536"
	case 31:
		return "2147483648"
	case 32:
		return "4294967296"
	case 63:
		return "9223372036854775808"
	}
	return "18446744073709551616"
}

func (fr *frame) execTypeAssert(x *ssa.TypeAssert, st *State) {
	c := fr.c
	v := fr.val(x.X)
	var ok string
	var res Val
	if it, isIface := x.AssertedType.Underlying().(*types.Interface); isIface {
		// interface-to-interface: ok iff dynamic type implements it (closed world over loaded repo types)
		ok = fr.c.implementsTerm(v.T, it)
		res = Val{T: v.T, Ty: x.AssertedType}
	} else {
		ok = fmt.Sprintf("(= (itag %s) %s)", v.T, c.typeTag(x.AssertedType))
		res = Val{T: c.define("ta", c.sortOf(x.AssertedType), c.unbox(x.AssertedType, "(ival "+v.T+")")), Ty: x.AssertedType}
	}
	if x.CommaOk {
		okName := c.define("ok", "Bool", ok)
		// on failure the value is the zero value
		zv := Val{T: c.define("tav", c.sortOf(x.AssertedType), ite(okName, res.T, c.zero(x.AssertedType))), Ty: x.AssertedType}
		fr.vals[x] = Val{Ty: x.Type(), Tuple: []Val{zv, {T: okName, Ty: types.Typ[types.Bool]}}}
		if okName != "false" {
			saved := fr.curReach
			fr.curReach = and(saved, okName)
			fr.assumeWF(zv, st)
			fr.curReach = saved
		}
		return
	}
	fr.safety("typeassert", ok, "type assertion may fail: "+c.prog.sourceLine(c.prog.Fset.Position(x.Pos())), x.Pos())
	fr.vals[x] = res
	fr.assumeWF(res, st)
}

func (c *Ctx) implementsTerm(x string, it *types.Interface) string {
	if it.NumMethods() == 0 {
		return fmt.Sprintf("(not (= (itag %s) 0))", x)
	}
	impls := c.prog.implementers(it, "github.com/ctessum/geom")
	var alts []string
	for _, t := range impls {
		alts = append(alts, fmt.Sprintf("(= (itag %s) %s)", x, c.typeTag(t)))
		if _, isPtr := t.(*types.Pointer); !isPtr {
			// the method set of *T contains that of T
			alts = append(alts, fmt.Sprintf("(= (itag %s) %s)", x, c.typeTag(types.NewPointer(t))))
		}
	}
	if len(alts) == 0 {
		// no implementer inside the repository (the interface is there to probe readers from
		// outside, e.g. `interface{ Len() int }` for *bytes.Buffer): open world — an uninterpreted
		// predicate of the dynamic type, the same for every occurrence of this interface
		name := "impl_" + sanitize(it.String())
		c.declOnce("impl:"+name, fmt.Sprintf("(declare-fun %s (Int) Bool)\n(assert (not (%s 0)))", name, name))
		return fmt.Sprintf("(%s (itag %s))", name, x)
	}
	c.assumed["closed world: dynamic types implementing "+it.String()+" are those declared in the repository"] = true
	return or(alts...)
}

func (fr *frame) execMakeSlice(x *ssa.MakeSlice, st *State) {
	c := fr.c
	ln, cp := fr.val(x.Len), fr.val(x.Cap)
	fr.safety("makeslice", fmt.Sprintf("(and (>= %s 0) (<= %s %s))", ln.T, ln.T, cp.T), "makeslice: len out of range", x.Pos())
	et := x.Type().Underlying().(*types.Slice).Elem()
	es := c.hk(et)
	obj := fr.allocObj(st, x.Name())
	c.wrObj(st, es, obj, fmt.Sprintf("((as const (Array Int %s)) %s)", baseSort(es), c.zero(et)))
	fr.vals[x] = Val{T: c.define("mk_"+x.Name(), "Slice", fmt.Sprintf("(mkslice %s 0 %s %s)", obj, ln.T, cp.T)), Ty: x.Type()}
	fr.ghostAlloc(st, ln.T, et)
}

// ghostAlloc accounts bytes allocated (C07).
func (fr *frame) ghostAlloc(st *State, n string, et types.Type) {
	sz := fr.c.prog.sizeof(et)
	cur, ok := st.ghost["allocated"]
	if !ok {
		cur = "allocated_0"
		fr.c.declOnce("allocated_0", "(declare-fun allocated_0 () Int)")
	}
	st.ghost["allocated"] = fr.c.define("allocated", "Int", fmt.Sprintf("(+ %s (* %d %s))", cur, sz, n))
}

func (P *Program) sizeof(t types.Type) int64 {
	sz := types.SizesFor("gc", "amd64")
	return sz.Sizeof(t)
}

func (fr *frame) execSlice(x *ssa.Slice, st *State) {
	c := fr.c
	base := fr.val(x.X)
	opt := func(v ssa.Value, def string) string {
		if v == nil {
			return def
		}
		return fr.val(v).T
	}
	switch bt := x.X.Type().Underlying().(type) {
	case *types.Slice:
		lo := opt(x.Low, "0")
		hi := opt(x.High, "(slen "+base.T+")")
		mx := opt(x.Max, "(scap "+base.T+")")
		fr.safety("slice", fmt.Sprintf("(and (<= 0 %s) (<= %s %s) (<= %s %s) (<= %s (scap %s)))", lo, lo, hi, hi, mx, mx, base.T), "slice bounds out of range: "+c.prog.sourceLine(c.prog.Fset.Position(x.Pos())), x.Pos())
		fr.vals[x] = Val{T: c.define("sl", "Slice", fmt.Sprintf("(mkslice (sobj %s) (+ (soff %s) %s) (- %s %s) (- %s %s))", base.T, base.T, lo, hi, lo, mx, lo)), Ty: x.Type()}
	case *types.Pointer:
		at := bt.Elem().Underlying().(*types.Array)
		n := fmt.Sprint(at.Len())
		if base.Local != nil || base.Path != nil {
			fr.unsup("slicing a local array")
			fr.vals[x] = Val{T: "nilslice", Ty: x.Type()}
			return
		}
		lo := opt(x.Low, "0")
		hi := opt(x.High, n)
		mx := opt(x.Max, n)
		fr.safety("slice", fmt.Sprintf("(and (<= 0 %s) (<= %s %s) (<= %s %s) (<= %s %s))", lo, lo, hi, hi, mx, mx, n), "slice bounds out of range", x.Pos())
		fr.vals[x] = Val{T: c.define("sl", "Slice", fmt.Sprintf("(mkslice (pobj %s) (+ (pidx %s) %s) (- %s %s) (- %s %s))", base.T, base.T, lo, hi, lo, mx, lo)), Ty: x.Type()}
	case *types.Basic:
		// string slicing
		c.assumed["string slicing (uninterpreted)"] = true
		lo := opt(x.Low, "0")
		hi := opt(x.High, "(strlen "+base.T+")")
		fr.safety("slice", fmt.Sprintf("(and (<= 0 %s) (<= %s %s) (<= %s (strlen %s)))", lo, lo, hi, hi, base.T), "string slice bounds out of range", x.Pos())
		c.declOnce("substr", "(declare-fun substr (Str Int Int) Str)\n(assert (forall ((s Str) (a Int) (b Int)) (! (=> (and (<= 0 a) (<= a b) (<= b (strlen s))) (= (strlen (substr s a b)) (- b a))) :pattern ((substr s a b)))))")
		fr.vals[x] = Val{T: fmt.Sprintf("(substr %s %s %s)", base.T, lo, hi), Ty: x.Type()}
	default:
		fr.unsup("slice of %s", x.X.Type())
	}
}

func (fr *frame) execPanic(x *ssa.Panic, st *State) {
	if fr.noSafety {
		// nosafety: failures that depend on an invariant this contract does not prove are
		// assumed away — that includes the code's own invariant-check panics
		fr.c.assumed["nosafety: explicit panic in "+fr.name+" assumed unreachable: "+fr.c.prog.sourceLine(fr.c.prog.Fset.Position(x.Pos()))] = true
		fr.assumeR("false")
		return
	}
	// a panic is allowed only when licensed by the contract's panics clause
	fr.oblige("safety", "panic", nil, fr.panicOK, "explicit panic reachable: "+fr.c.prog.sourceLine(fr.c.prog.Fset.Position(x.Pos())), x.Pos())
	if fr.c.panicsWithSet {
		v := fr.val(x.X)
		var alts []string
		for _, tg := range fr.c.panicsWith {
			alts = append(alts, fmt.Sprintf("(= (itag %s) %s)", v.T, tg))
		}
		fr.oblige("safety", "panicvalue", nil, or(alts...), "the value of this panic has one of the types declared by panics_with: "+fr.c.prog.sourceLine(fr.c.prog.Fset.Position(x.Pos())), x.Pos())
	}
}

func isByteSlice(t types.Type) bool {
	sl, ok := t.Underlying().(*types.Slice)
	if !ok {
		return false
	}
	b, ok := sl.Elem().Underlying().(*types.Basic)
	return ok && (b.Kind() == types.Uint8 || b.Kind() == types.Byte)
}

// isReturnBlock: the block ends in a return (straight-line code before it allowed).
func isReturnBlock(b *ssa.BasicBlock) bool {
	if len(b.Instrs) == 0 {
		return false
	}
	_, ok := b.Instrs[len(b.Instrs)-1].(*ssa.Return)
	return ok
}

// isPkgInit: fn is the synthetic package initialiser (variable initialisers followed by the
// calls of the init functions).
func isPkgInit(fn *ssa.Function) bool {
	return fn != nil && fn.Synthetic == "package initializer"
}

// isInitCallee: a package initialiser of another package, or one of this package's init functions.
func isInitCallee(fn *ssa.Function) bool {
	if fn == nil {
		return false
	}
	if isPkgInit(fn) {
		return true
	}
	n := fn.Name()
	if strings.HasPrefix(n, "init#") && fn.Parent() == nil {
		return true
	}
	return false
}

// bitEq: identity of two values of type t, expanded over struct fields and small arrays down to
// scalars (where it is SMT equality).
func (c *Ctx) bitEq(t types.Type, a, b string) string {
	switch tt := t.Underlying().(type) {
	case *types.Struct:
		var parts []string
		for i := 0; i < tt.NumFields(); i++ {
			parts = append(parts, c.bitEq(tt.Field(i).Type(), c.fieldSel(t, i, a), c.fieldSel(t, i, b)))
		}
		return and(parts...)
	case *types.Array:
		if tt.Len() <= 8 {
			var parts []string
			for i := int64(0); i < tt.Len(); i++ {
				parts = append(parts, c.bitEq(tt.Elem(), fmt.Sprintf("(select %s %d)", a, i), fmt.Sprintf("(select %s %d)", b, i)))
			}
			return and(parts...)
		}
	}
	return eq(a, b)
}

// loopUsesRebasedIndex: some instruction in the loop computes phi - init (the body addresses the
// element before the index), which tells a re-based loop from one whose first iteration was peeled.
func (fr *frame) loopUsesRebasedIndex(li *loopInfo, phi *ssa.Phi, init int64) bool {
	for b := range li.body {
		for _, ins := range b.Instrs {
			bo, ok := ins.(*ssa.BinOp)
			if !ok || bo.X != ssa.Value(phi) {
				continue
			}
			k, ok := bo.Y.(*ssa.Const)
			if !ok || k.Value == nil {
				continue
			}
			v, exact := constant.Int64Val(constant.ToInt(k.Value))
			if !exact {
				continue
			}
			if (bo.Op == token.SUB && v == init) || (bo.Op == token.ADD && v == -init) {
				return true
			}
		}
	}
	return false
}
