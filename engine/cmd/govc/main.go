package main

import (
	"encoding/json"
	"flag"
	"fmt"
	"os"
	"path/filepath"
	"regexp"
	"sort"
	"strconv"
	"strings"
	"sync"
	"time"

	"golang.org/x/tools/go/ssa"
)

var propPackages = map[string][]string{
	"C01": {"."},
	"C02": {"."},
	"C03": {".", "./op"},
	"C04": {"."},
	"C05": {"./encoding/wkb", "./encoding/hex"},
	"C06": {"./encoding/geojson"},
	"C07": {"./encoding/wkb", "./encoding/hex", "./encoding/geojson"},
	"C08": {"./proj"},
	"C09": {"./proj"},
	"C10": {".", "./proj"},
	"C11": {"./index/rtree"},
	"C12": {"./index/rtree"},
	"C13": {"."},
	"C14": {"."},
	"C15": {"."},
	"C16": {"./encoding/shp"},
	"C17": {"./encoding/wkt"},
	"C18": {"./encoding/osm"},
	"C19": {"./route"},
	"C20": {"./proj"},
}

type oblReport struct {
	Name     string            `json:"name"`
	Kind     string            `json:"kind"`
	Func     string            `json:"func"`
	Text     string            `json:"text"`
	Pos      string            `json:"pos,omitempty"`
	Status   string            `json:"status"`
	Solver   string            `json:"solver,omitempty"`
	Seconds  float64           `json:"seconds"`
	Mode     string            `json:"mode"`
	All      map[string]string `json:"all_solvers,omitempty"`
	obl      *Obligation
	res      SolverResult
}

func main() {
	if len(os.Args) < 2 {
		fmt.Fprintln(os.Stderr, "usage: govc check <PROP> [flags] | govc replay <file>")
		os.Exit(2)
	}
	switch os.Args[1] {
	case "check":
		rc := cmdCheck(os.Args[2:])
		cleanupScratch() // os.Exit does not run deferred calls
		os.Exit(rc)
	case "replay":
		rc := cmdReplay(os.Args[2:])
		cleanupScratch()
		os.Exit(rc)
	default:
		fmt.Fprintln(os.Stderr, "unknown command", os.Args[1])
		os.Exit(2)
	}
}

type checkOpts struct {
	prop     string
	tier     string
	repo     string
	verif    string
	only     *regexp.Regexp
	dump     string
	verbose  bool
	timeout  int
	jobs     int
	noReplay bool
	noEvidence bool
	seed     int64
}

func cmdCheck(argv []string) int {
	fs := flag.NewFlagSet("check", flag.ExitOnError)
	tier := fs.String("tier", envOr("VERIF_TIER", "quick"), "quick|thorough")
	repo := fs.String("repo", "/repo", "repository")
	verif := fs.String("verif", "/verif", "verif dir")
	only := fs.String("only", "", "regexp on obligation names")
	dump := fs.String("dump", "", "dump queries to dir")
	verbose := fs.Bool("v", false, "verbose")
	timeout := fs.Int("timeout", 0, "per-obligation timeout (s)")
	jobs := fs.Int("j", 8, "parallel obligations")
	noReplay := fs.Bool("noreplay", false, "skip witness replay")
	noEvidence := fs.Bool("noevidence", false, "do not write the evidence and replay files (selftest on a scratch copy)")
	dbg := fs.Bool("panic", false, "do not recover engine panics")
	var prop string
	if len(argv) > 0 && !strings.HasPrefix(argv[0], "-") {
		prop = argv[0]
		argv = argv[1:]
	}
	fs.Parse(argv)
	debugPanics = *dbg
	o := &checkOpts{prop: prop, tier: *tier, repo: *repo, verif: *verif, dump: *dump, verbose: *verbose, timeout: *timeout, jobs: *jobs, noReplay: *noReplay, noEvidence: *noEvidence}
	if *only != "" {
		o.only = regexp.MustCompile(*only)
	}
	if s := os.Getenv("VERIF_SEED"); s != "" {
		o.seed, _ = strconv.ParseInt(s, 10, 64)
	}
	if o.timeout == 0 {
		if o.tier == "thorough" {
			o.timeout = 120
		} else {
			o.timeout = 40
		}
	}
	return runCheck(o)
}

func envOr(k, d string) string {
	if v := os.Getenv(k); v != "" {
		return v
	}
	return d
}

func propSelected(props []string, p string) bool {
	if p == "" || p == "all" {
		return true
	}
	return containsStr(props, p)
}

func contractMentions(fc *FuncContract, p string) bool {
	if propSelected(fc.Props, p) {
		return true
	}
	for _, cl := range fc.Ensures {
		if containsStr(cl.Props, p) {
			return true
		}
	}
	for _, l := range fc.Loops {
		for _, cl := range l.Invs {
			if containsStr(cl.Props, p) {
				return true
			}
		}
	}
	return false
}

var kfGlobal *knownFile

func runCheck(o *checkOpts) int {
	t0 := time.Now()
	kfGlobal = loadKnownFindings(filepath.Join(o.verif, "known_findings.json"))
	pats, ok := propPackages[o.prop]
	if !ok {
		pats = []string{"."}
	}
	P, err := loadProgram(o.repo, pats, filepath.Join(o.verif, "contracts", "external"))
	if err != nil {
		fmt.Fprintln(os.Stderr, "engine error: load:", err)
		return 2
	}
	loadS := time.Since(t0).Seconds()

	var results []*FuncResult
	var keys []string
	for k := range P.Contracts.Funcs {
		keys = append(keys, k)
	}
	sort.Strings(keys)
	var engineErrs []string
	var trusted []string
	nfuncs := 0
	for _, k := range keys {
		fc := P.Contracts.Funcs[k]
		if !contractMentions(fc, o.prop) {
			continue
		}
		if fc.External && !fc.verifiedDep() {
			continue
		}
		fn := P.lookupFunc(fc.Pkg, fc.Key)
		if fn == nil {
			if _, loaded := P.TypesPkgs[fc.Pkg]; !loaded {
				continue
			}
			engineErrs = append(engineErrs, fmt.Sprintf("contract for %s::%s: function not found in the loaded program", fc.Pkg, fc.Key))
			continue
		}
		r := P.verifyFunc(fn, fc, parseMode(fc.Mode))
		results = append(results, r)
		if fc.verifiedDep() && r.Ctx != nil {
			src := ""
			if fn.Pos().IsValid() {
				src = filepath.Dir(P.Fset.Position(fn.Pos()).Filename)
			}
			r.Ctx.assumed["A-DEPSRC: "+r.Func+" is a function of a dependency, verified from the source the build uses ("+src+", the module version go.mod pins; read-only module cache), contract in /verif/contracts/external"] = true
		}
		if r.Trusted != "" {
			trusted = append(trusted, r.Func+": "+r.Trusted)
			continue
		}
		nfuncs++
		for _, e := range r.Errs {
			engineErrs = append(engineErrs, e)
		}
	}
	var lkeys []string
	for k := range P.Contracts.Lemmas {
		lkeys = append(lkeys, k)
	}
	sort.Strings(lkeys)
	for _, k := range lkeys {
		lm := P.Contracts.Lemmas[k]
		if !propSelected(lm.Props, o.prop) {
			continue
		}
		if _, loaded := P.TypesPkgs[lm.Pkg]; !loaded {
			continue
		}
		r := P.verifyLemma(lm)
		results = append(results, r)
		if r.Trusted != "" {
			trusted = append(trusted, r.Func+": "+r.Trusted)
		}
		engineErrs = append(engineErrs, r.Errs...)
	}

	// collect obligations
	var reps []*oblReport
	for _, r := range results {
		for _, ob := range r.Obls {
			if !propSelected(ob.Props, o.prop) {
				continue
			}
			if o.only != nil && !o.only.MatchString(ob.Name) {
				continue
			}
			reps = append(reps, &oblReport{Name: ob.Name, Kind: ob.Kind, Func: ob.Func, Text: ob.Text, Pos: posStr(ob), Mode: ob.ctx.mode.String(), obl: ob})
		}
	}
	if o.dump != "" {
		os.MkdirAll(o.dump, 0o755)
	}
	// discharge
	sem := make(chan struct{}, o.jobs)
	var wg sync.WaitGroup
	for _, rp := range reps {
		rp := rp
		wg.Add(1)
		sem <- struct{}{}
		go func() {
			defer wg.Done()
			defer func() { <-sem }()
			var extra []string
			if len(rp.obl.Using) > 0 {
				extra = rp.obl.ctx.lemmaAxioms(rp.obl.Using, nil)
			}
			if rp.obl.TypeFact {
				rp.Solver = "go/types"
				if strings.HasSuffix(rp.obl.goal, "true") || rp.obl.goal == "true" {
					rp.Status = "proved"
				} else {
					rp.Status = "refuted"
					rp.res.Status = "typefact"
				}
				return
			}
			qs := []string{rp.obl.queryVariant(extra, 0), rp.obl.queryVariant(extra, 1)}
			if o.dump != "" {
				os.WriteFile(filepath.Join(o.dump, sanitize(rp.Name)+".smt2"), []byte(qs[0]), 0o644)
			}
			to := o.timeout
			if rp.obl.Vacuity && to > 4 {
				to = 4
			}
			if kfGlobal != nil && kfGlobal.match(o.prop, rp.Name) != nil && to > 8 && o.tier != "thorough" {
				to = 8 // a listed known finding is expected to stay undischarged
			}
			res := runSolvers(rp.Name, qs, to, o.tier == "thorough" && !rp.obl.Vacuity, nil)
			rp.res = res
			rp.Solver = res.Solver
			rp.Seconds = res.Seconds
			rp.All = res.All
			if rp.obl.Vacuity {
				switch res.Status {
				case "sat":
					rp.Status = "proved"
				case "unsat":
					rp.Status = "vacuous"
				default:
					rp.Status = "proved" // unknown on a satisfiability probe is not evidence of vacuity
					rp.Solver = res.Solver + "(probe:" + res.Status + ")"
				}
				return
			}
			if rp.obl.Unsupported != "" && res.Status != "unsat" {
				rp.Status = "error"
				rp.res.Output = "reachable unsupported construct: " + rp.obl.Unsupported
				return
			}
			switch res.Status {
			case "unsat":
				rp.Status = "proved"
			case "sat":
				rp.Status = "refuted"
			case "error":
				rp.Status = "error"
			default:
				rp.Status = "undecided:" + res.Status
			}
		}()
	}
	wg.Wait()

	return report(o, P, reps, results, engineErrs, trusted, nfuncs, loadS, t0)
}

func posStr(ob *Obligation) string {
	if !ob.Pos.IsValid() {
		return ""
	}
	return fmt.Sprintf("%s:%d", ob.Pos.Filename, ob.Pos.Line)
}

type evidence struct {
	PropertyID  string                 `json:"property_id"`
	Tier        string                 `json:"tier"`
	Seed        int64                  `json:"seed"`
	Level       string                 `json:"level"`
	Coverage    map[string]interface{} `json:"coverage"`
	Assumptions []string               `json:"assumptions"`
	WallS       float64                `json:"wall_s"`
	Violations  int                    `json:"violations"`
}

func report(o *checkOpts, P *Program, reps []*oblReport, results []*FuncResult, engineErrs, trusted []string, nfuncs int, loadS float64, t0 time.Time) int {
	kf := kfGlobal
	sort.Slice(reps, func(i, j int) bool { return reps[i].Name < reps[j].Name })
	proved, failed := 0, 0
	solverS := 0.0
	bySolver := map[string]int{}
	var violations []string
	var known []string
	exit := 0
	var vacuous []string
	var errObls []string
	// Functions whose contract no longer fits their code (a clause names a local that does not
	// exist, an anchored statement is gone, a callee has no contract, a construct outside the
	// subset is reachable): nothing generated for them can be trusted either way. Their failed
	// obligations are reported as UNDECIDED, not as violations (exit 2 unless something else fails).
	badFuncs := map[string]bool{}
	for _, r := range results {
		for _, e := range r.Errs {
			// an anchored assert whose statement is gone cannot be placed; that loses the assert,
			// it does not disturb the other obligations of the function
			if strings.Contains(e, ": assert [") && strings.Contains(e, "no source line") {
				continue
			}
			badFuncs[r.Func] = true
		}
	}
	for _, rp := range reps {
		if rp.Status == "error" || rp.Status == "vacuous" {
			badFuncs[rp.Func] = true
		}
	}
	var undecided []string
	for _, rp := range reps {
		solverS += rp.Seconds
		switch {
		case rp.Status == "proved":
			proved++
			bySolver[rp.Solver]++
		case rp.Status == "vacuous":
			vacuous = append(vacuous, rp.Name)
		case rp.Status == "error":
			errObls = append(errObls, rp.Name+": "+rp.res.Output)
		case badFuncs[rp.Func]:
			undecided = append(undecided, fmt.Sprintf("UNDECIDED property=%s obligation=%s status=%s (the contract of %s does not fit the code any more, see the ENGINE-ERROR lines; not reported as a violation)", o.prop, rp.Name, rp.Status, rp.Func))
		default:
			if e := kf.match(o.prop, rp.Name); e != nil && e.witnessStillFails(o.repo, P) {
				known = append(known, fmt.Sprintf("KNOWN-FINDING: property=%s %s (obligation %s; witness %s replayed and still fails)", o.prop, e.What, rp.Name, e.Witness))
				continue
			}
			failed++
			path := writeReplay(o, P, rp)
			suffix := ""
			if !replayConfirmed(path) {
				suffix = " no-failing-input-found"
			}
			violations = append(violations, fmt.Sprintf("VIOLATION property=%s replay=%s obligation=%s status=%s%s", o.prop, path, rp.Name, rp.Status, suffix))
		}
	}
	for _, k := range known {
		fmt.Println(k)
	}
	for _, v := range violations {
		fmt.Println(v)
		exit = 1
	}
	for _, u := range undecided {
		fmt.Println(u)
	}
	if o.verbose {
		for _, rp := range reps {
			fmt.Printf("  %-10s %-8s %6.2fs  %s\n", rp.Status, rp.Solver, rp.Seconds, rp.Name)
		}
	}
	if len(engineErrs) > 0 || len(vacuous) > 0 || len(errObls) > 0 {
		for _, e := range engineErrs {
			fmt.Println("ENGINE-ERROR:", e)
		}
		for _, v := range vacuous {
			fmt.Println("ENGINE-ERROR: vacuous contract:", v)
		}
		for _, v := range errObls {
			fmt.Println("ENGINE-ERROR: solver error:", v)
		}
		if exit == 0 {
			exit = 2
		}
	}
	if len(reps) == 0 {
		fmt.Println("ENGINE-ERROR: zero obligations generated for", o.prop)
		if exit == 0 {
			exit = 2
		}
	}
	// assumptions
	assume := map[string]bool{}
	var funcs []string
	for _, r := range results {
		if r.Trusted == "" {
			funcs = append(funcs, r.Func)
		}
		if r.Ctx != nil {
			for a := range r.Ctx.assumed {
				assume[a] = true
			}
		}
	}
	for _, t := range trusted {
		assume["trusted: "+t] = true
	}
	assume["A-ENGINE: govc's translation of the Go subset (go/ssa -> SMT) is faithful"] = true
	assume["A-INT: int arithmetic is mathematical (no overflow) except explicit fixed-width unsigned conversions"] = true
	assume["A-SMT: an unsat answer from z3 4.8.12 / z3 5.1.0 / cvc5 1.0 is correct"] = true
	var as []string
	for a := range assume {
		as = append(as, a)
	}
	sort.Strings(as)
	var samples []interface{}
	for i, rp := range reps {
		if i%maxInt(1, len(reps)/8) == 0 && len(samples) < 10 {
			samples = append(samples, map[string]string{"obligation": rp.Name, "text": rp.Text, "status": rp.Status, "solver": rp.Solver})
		}
	}
	var per []map[string]interface{}
	for _, rp := range reps {
		per = append(per, map[string]interface{}{"name": rp.Name, "status": rp.Status, "solver": rp.Solver, "seconds": round3(rp.Seconds), "mode": rp.Mode, "kind": rp.Kind})
	}
	sort.Strings(funcs)
	ev := evidence{PropertyID: o.prop, Tier: o.tier, Seed: o.seed, Level: "proof", WallS: round3(time.Since(t0).Seconds()), Violations: failed, Assumptions: as,
		Coverage: map[string]interface{}{
			"obligations":              len(reps),
			"discharged":               proved + len(known),
			"checker_cmd":              "govc check " + o.prop + " -tier " + o.tier + " (SSA->SMT-LIB; z3-new 5.1.0 | z3 4.8.12 | cvc5 1.0 portfolio)",
			"trusted_base":             as,
			"functions_under_contract": funcs,
			"n_functions":              nfuncs,
			"discharged_by_solver":     bySolver,
			"solver_seconds_total":     round3(solverS),
			"load_seconds":             round3(loadS),
			"known_findings":           known,
			"per_obligation":           per,
			"samples":                  samples,
			"contract_files":           P.Contracts.Files,
			"extraction_drops":         "verified text is the go/ssa form of /repo's working tree (tags: verif); dropped/idealised: goroutine scheduling, GC/OOM, int overflow (A-INT), float rounding in real mode, map iteration order (nondeterministic), reflect/unsafe/cgo/I-O (only as assumed contracts)",
		}}
	if len(known) > 0 {
		ev.Coverage["discharged"] = proved
		ev.Coverage["obligations"] = len(reps) - len(known)
	}
	os.MkdirAll(filepath.Join(o.verif, "evidence"), 0o755)
	b, _ := json.MarshalIndent(ev, "", " ")
	if o.only == nil && !o.noEvidence {
		os.WriteFile(filepath.Join(o.verif, "evidence", o.prop+".json"), b, 0o644)
	}
	fmt.Printf("govc %s: %d obligations, %d proved, %d failed, %d known findings, %d functions, load %.1fs, solvers %.1fs, wall %.1fs\n", o.prop, len(reps), proved, failed, len(known), nfuncs, loadS, solverS, time.Since(t0).Seconds())
	return exit
}

func maxInt(a, b int) int {
	if a > b {
		return a
	}
	return b
}

func round3(f float64) float64 { return float64(int(f*1000+0.5)) / 1000 }

var _ = ssa.NaiveForm
