package main

import (
	"fmt"
	"os"
	"path/filepath"
	"regexp"
	"sort"
	"strconv"
	"strings"
)

// Clause is one requires/ensures/invariant/… line.
type Clause struct {
	Kind  string
	Props []string
	Label string
	Text  string
	Expr  Expr
	Using []string
	File  string
	Line  int
	// Assumed (ensures_assumed): callers may rely on the clause, the function's
	// own verification does not prove it; reported as an unchecked assumption.
	Assumed bool
	Local   bool // ensures_local: not exported to call sites
}

type LoopSpec struct {
	N      int
	Header string
	Invs   []*Clause
	// Complete ("complete [label]"): the loop is left only through its header
	// (no break/return/goto out of the body is reachable).
	Complete      bool
	CompleteLabel string
	// CompleteUnless ("complete [label] unless e"): a return inside the loop is allowed
	// when e (over the results) holds, e.g. `unless result != nil`
	CompleteUnless     Expr
	CompleteUnlessText string
	Decreases          []Expr
	DecText            string
	DecWhen            Expr // optional guard (evaluated in the entry state): termination is claimed only under it
}

type FuncContract struct {
	Pkg      string // import path
	Key      string // SSA-relative name: "(*Bounds).Extend", "NewBounds", "(Polygon).Points$1"
	Props    []string
	Mode     string
	Requires []*Clause
	Ensures  []*Clause
	Panics   []*Clause // conditions under which a panic is licensed
	Modifies []Expr
	ModSet   bool // an explicit modifies clause was given
	ModText  string
	Loops    []*LoopSpec
	Trusted  string // non-empty: body not verified; reason
	Inline   bool
	External bool // contract lives in /verif/contracts/external
	NoSafety bool
	Asserts  []*AssertSpec
	TypeReqs []TypeReq // static type facts required of arguments (decided by go/types)
	// PanicsWith (panics_with T1, T2): every explicit panic(v) raised by the function,
	// directly or through callees, has one of these dynamic types (obligation at each
	// panic site); used where a caller recovers and type-asserts the value.
	PanicsWith []*TypeExpr
	Defines    []*Clause // definitional abstractions: assumed at call sites, not proved (listed as assumptions)
	Decreases  []Expr
	File       string
	Line       int
	Opts       map[string]string
}

// TypeReq: the static type of the value passed for Param must implement Iface.
type TypeReq struct {
	Label string
	Props []string
	Param string
	Iface string
}

// AssertSpec: an obligation at a program point, identified by the source text
// of a line (and the ordinal among lines with that text).
type AssertSpec struct {
	C    *Clause
	Text string
	Ord  int
	hits int
	// Optional: the obligation exists only while the anchored statement exists
	// (assert_if_present); used for "this statement is only admissible if ..."
	Optional bool
	// Then: the clause holds on entry to the true branch of the (last) if
	// condition on the anchored line (assert_then) — for branches such as a
	// bare break/continue that have no positioned instruction of their own.
	Then bool
}

type SpecFunc struct {
	Pkg       string
	Name      string
	Params    []Param
	Ret       *TypeExpr
	Body      Expr // nil = uninterpreted
	Decreases Expr
	Text      string
	Rec       bool
	Opaque    bool // uninterpreted symbol + definitional axiom (good quantifier patterns)
	File      string
	Line      int
}

type Lemma struct {
	Pkg      string
	Name     string
	Params   []Param
	Requires []*Clause
	Ensures  []*Clause
	Induct   string // induction variable (int), "" for direct
	Using    []string
	Props    []string
	Axiom    bool // trusted, not proved
	Reason   string
	Mode     string
	File     string
	Line     int
}

type IfaceContract struct {
	Pkg    string
	Iface  string
	Method string
	C      *FuncContract
}

type Contracts struct {
	Funcs    map[string]*FuncContract // key pkg+"::"+Key
	Specs    map[string]*SpecFunc     // key pkg+"::"+name (and bare name for lookup fallback)
	Lemmas   map[string]*Lemma
	Ifaces   []*IfaceContract
	FuncTys  map[string]*FuncContract // named func type contracts: pkg::TypeName
	Files    []string
	order    []string
	repoPkgs map[string]bool // import paths of the repository's own packages
}

func newContracts() *Contracts {
	return &Contracts{Funcs: map[string]*FuncContract{}, Specs: map[string]*SpecFunc{}, Lemmas: map[string]*Lemma{}, FuncTys: map[string]*FuncContract{}}
}

// verifiedDep: a contract in /verif/contracts/external on a function of a dependency that is NOT
// assumed: `opt verify=source` makes govc verify the function's body as found in the module cache
// (the version go.mod pins, i.e. the code the build links) like any function of the repository.
func (fc *FuncContract) verifiedDep() bool {
	return fc.External && fc.Trusted == "" && fc.Opts["verify"] == "source"
}

var stmtKeywords = map[string]bool{
	"spec": true, "pred": true, "lemma": true, "axiom": true, "func": true, "interface": true, "functype": true,
	"prop": true, "mode": true, "requires": true, "ensures": true, "panics": true, "modifies": true,
	"decreases": true, "loop": true, "invariant": true, "closure": true, "trusted": true, "inline": true,
	"ensures_assumed": true, "ensures_local": true, "complete": true, "panics_with": true, "assert": true, "assert_if_present": true, "assert_then": true, "defines": true, "lift": true, "requires_impl": true, "using": true, "opt": true, "nosafety": true, "induction": true, "opaque_spec": true, "opaque_pred": true,
}

type stmt struct {
	kw   string
	rest string
	line int
}

var tagRe = regexp.MustCompile(`^\[([^\]]*)\]\s*`)

func parseTag(s string) (props []string, label string, rest string) {
	m := tagRe.FindStringSubmatch(s)
	if m == nil {
		return nil, "", s
	}
	rest = s[len(m[0]):]
	inner := m[1]
	if i := strings.Index(inner, ":"); i >= 0 {
		for _, p := range strings.Split(inner[:i], ",") {
			p = strings.TrimSpace(p)
			if p != "" {
				props = append(props, p)
			}
		}
		label = strings.TrimSpace(inner[i+1:])
	} else {
		label = strings.TrimSpace(inner)
	}
	return
}

// loadContractFile parses one contract file. importPath is the package the
// contracts talk about.
func (cs *Contracts) loadContractFile(path, importPath string, external bool) error {
	data, err := os.ReadFile(path)
	if err != nil {
		return err
	}
	cs.Files = append(cs.Files, path)
	var stmts []stmt
	lines := strings.Split(string(data), "\n")
	for i, ln := range lines {
		t := strings.TrimSpace(ln)
		if external {
			// external .spec files: plain lines, '#' or '//' comments, "package x" header
			if strings.HasPrefix(t, "package ") {
				importPath = strings.TrimSpace(strings.TrimPrefix(t, "package "))
				continue
			}
			if strings.HasPrefix(t, "//@") {
				t = strings.TrimSpace(strings.TrimPrefix(t, "//@"))
			} else if strings.HasPrefix(t, "#") || strings.HasPrefix(t, "//") || t == "" {
				continue
			}
		} else {
			if !strings.HasPrefix(t, "//@") {
				continue
			}
			t = strings.TrimSpace(strings.TrimPrefix(t, "//@"))
		}
		if t == "" || strings.HasPrefix(t, "--") {
			continue
		}
		w := t
		if j := strings.IndexAny(t, " \t"); j >= 0 {
			w = t[:j]
		}
		if w == "opaque" {
			t = "opaque_" + strings.TrimSpace(t[len(w):])
			w = t[:strings.IndexAny(t, " \t")]
		}
		if stmtKeywords[w] {
			stmts = append(stmts, stmt{w, strings.TrimSpace(t[len(w):]), i + 1})
		} else {
			if len(stmts) == 0 {
				return fmt.Errorf("%s:%d: continuation line without statement", path, i+1)
			}
			stmts[len(stmts)-1].rest += " " + t
		}
	}

	var curF *FuncContract
	var curLoop *LoopSpec
	var curLemma *Lemma
	var lastClause *Clause
	mkClause := func(kind string, s stmt) (*Clause, error) {
		props, label, rest := parseTag(s.rest)
		e, err := parseExpr(rest)
		if err != nil {
			return nil, fmt.Errorf("%s:%d: %v", path, s.line, err)
		}
		return &Clause{Kind: kind, Props: props, Label: label, Text: rest, Expr: e, File: path, Line: s.line}, nil
	}
	for _, s := range stmts {
		switch s.kw {
		case "spec", "pred", "opaque_spec", "opaque_pred":
			curF, curLoop, curLemma = nil, nil, nil
			sf, err := parseSpecDef(s.rest, strings.HasSuffix(s.kw, "pred"))
			if err == nil && strings.HasPrefix(s.kw, "opaque_") {
				sf.Opaque = true
			}
			if err != nil {
				return fmt.Errorf("%s:%d: %v", path, s.line, err)
			}
			sf.Pkg, sf.File, sf.Line = importPath, path, s.line
			cs.Specs[importPath+"::"+sf.Name] = sf
		case "lemma", "axiom":
			curF, curLoop = nil, nil
			lm, err := parseLemmaHead(s.rest)
			if err != nil {
				return fmt.Errorf("%s:%d: %v", path, s.line, err)
			}
			lm.Pkg, lm.File, lm.Line = importPath, path, s.line
			lm.Axiom = s.kw == "axiom"
			cs.Lemmas[importPath+"::"+lm.Name] = lm
			cs.order = append(cs.order, importPath+"::"+lm.Name)
			curLemma = lm
		case "induction":
			if curLemma == nil {
				return fmt.Errorf("%s:%d: induction outside lemma", path, s.line)
			}
			curLemma.Induct = strings.TrimSpace(s.rest)
		case "func":
			curLoop, curLemma = nil, nil
			key, err := parseFuncKey(s.rest)
			if err != nil {
				return fmt.Errorf("%s:%d: %v", path, s.line, err)
			}
			// a contract in /verif/contracts/external is an assumed one, except when the file speaks
			// about a package of the repository itself (generated reference material, e.g. the
			// proj4js tables as the contract of package proj's initialiser): that is verified
			curF = &FuncContract{Pkg: importPath, Key: key, File: path, Line: s.line, External: external && !cs.repoPkgs[importPath], Opts: map[string]string{}}
			cs.Funcs[importPath+"::"+key] = curF
		case "interface":
			curLoop, curLemma = nil, nil
			parts := strings.SplitN(strings.TrimSpace(s.rest), ".", 2)
			if len(parts) != 2 {
				return fmt.Errorf("%s:%d: interface Type.Method expected", path, s.line)
			}
			curF = &FuncContract{Pkg: importPath, Key: "iface:" + s.rest, File: path, Line: s.line, Opts: map[string]string{}}
			cs.Ifaces = append(cs.Ifaces, &IfaceContract{Pkg: importPath, Iface: parts[0], Method: parts[1], C: curF})
		case "functype":
			curLoop, curLemma = nil, nil
			curF = &FuncContract{Pkg: importPath, Key: "functype:" + s.rest, File: path, Line: s.line, Opts: map[string]string{}}
			cs.FuncTys[importPath+"::"+strings.TrimSpace(s.rest)] = curF
		case "closure":
			// closure N : shorthand for func <outer>$N
			if curF == nil {
				return fmt.Errorf("%s:%d: closure outside func", path, s.line)
			}
			base := curF.Key
			if i := strings.Index(base, "$"); i >= 0 {
				base = base[:i]
			}
			curLoop = nil
			curF = &FuncContract{Pkg: importPath, Key: base + "$" + strings.TrimSpace(s.rest), File: path, Line: s.line, External: external, Props: curF.Props, Mode: curF.Mode, Opts: map[string]string{}}
			cs.Funcs[importPath+"::"+curF.Key] = curF
		case "prop":
			var ps []string
			for _, p := range strings.Split(s.rest, ",") {
				if p = strings.TrimSpace(p); p != "" {
					ps = append(ps, p)
				}
			}
			if curLemma != nil {
				curLemma.Props = ps
			} else if curF != nil {
				curF.Props = ps
			}
		case "mode":
			if curLemma != nil {
				curLemma.Mode = strings.TrimSpace(s.rest)
			} else if curF != nil {
				curF.Mode = strings.TrimSpace(s.rest)
			}
		case "opt":
			if curF != nil {
				kv := strings.SplitN(s.rest, "=", 2)
				if len(kv) == 2 {
					curF.Opts[strings.TrimSpace(kv[0])] = strings.TrimSpace(kv[1])
				} else {
					curF.Opts[strings.TrimSpace(s.rest)] = "1"
				}
			}
		case "trusted":
			if curLemma != nil {
				curLemma.Reason = s.rest
				curLemma.Axiom = true
			} else if curF != nil {
				curF.Trusted = s.rest
				if curF.Trusted == "" {
					curF.Trusted = "trusted"
				}
			}
		case "inline":
			if curF != nil {
				curF.Inline = true
			}
		case "nosafety":
			if curF != nil {
				curF.NoSafety = true
			}
		case "using":
			var us []string
			for _, u := range splitTop(s.rest) {
				if u = strings.TrimSpace(u); u != "" {
					us = append(us, u)
				}
			}
			if lastClause != nil {
				lastClause.Using = append(lastClause.Using, us...)
			} else if curLemma != nil {
				curLemma.Using = append(curLemma.Using, us...)
			}
		case "requires_impl":
			if curF == nil {
				return fmt.Errorf("%s:%d: requires_impl outside func", path, s.line)
			}
			props, label, rest := parseTag(s.rest)
			f := strings.Fields(rest)
			if len(f) != 2 {
				return fmt.Errorf("%s:%d: requires_impl [label] param pkg.Iface", path, s.line)
			}
			curF.TypeReqs = append(curF.TypeReqs, TypeReq{Label: label, Props: props, Param: f[0], Iface: f[1]})
		case "panics_with":
			if curF == nil {
				return fmt.Errorf("%s:%d: panics_with outside func", path, s.line)
			}
			for _, part := range splitTop(s.rest) {
				te, err := parseTypeExpr(strings.TrimSpace(part))
				if err != nil {
					return fmt.Errorf("%s:%d: %v", path, s.line, err)
				}
				curF.PanicsWith = append(curF.PanicsWith, te)
			}
		case "lift":
			if curF == nil {
				return fmt.Errorf("%s:%d: lift outside func", path, s.line)
			}
			curF.Opts["lift"] = strings.TrimSpace(s.rest)
		case "defines":
			c, err := mkClause(s.kw, s)
			if err != nil {
				return err
			}
			if curF == nil {
				return fmt.Errorf("%s:%d: defines outside func", path, s.line)
			}
			curF.Defines = append(curF.Defines, c)
			lastClause = c
		case "requires", "ensures", "panics", "ensures_assumed", "ensures_local":
			c, err := mkClause(s.kw, s)
			if err == nil && s.kw == "ensures_assumed" {
				c.Assumed = true
				c.Kind = "ensures"
			}
			if err == nil && s.kw == "ensures_local" {
				// a postcondition over the function's own locals: proved in the body, not
				// visible to callers (they cannot name the locals)
				c.Local = true
				c.Kind = "ensures"
			}
			if err != nil {
				return err
			}
			lastClause = c
			if curLemma != nil {
				if s.kw == "requires" {
					curLemma.Requires = append(curLemma.Requires, c)
				} else {
					curLemma.Ensures = append(curLemma.Ensures, c)
				}
				lastClause = nil
				continue
			}
			if curF == nil {
				return fmt.Errorf("%s:%d: clause outside func", path, s.line)
			}
			switch s.kw {
			case "requires":
				curF.Requires = append(curF.Requires, c)
			case "ensures", "ensures_assumed", "ensures_local":
				curF.Ensures = append(curF.Ensures, c)
			case "panics":
				curF.Panics = append(curF.Panics, c)
			}
		case "assert", "assert_if_present", "assert_then":
			if curF == nil {
				return fmt.Errorf("%s:%d: assert outside func", path, s.line)
			}
			props, label, rest := parseTag(s.rest)
			i := strings.Index(rest, "`")
			j := -1
			if i >= 0 {
				j = strings.Index(rest[i+1:], "`")
			}
			if i < 0 || j < 0 {
				return fmt.Errorf("%s:%d: assert needs a `source line` locator", path, s.line)
			}
			loc := rest[i+1 : i+1+j]
			rest = strings.TrimSpace(rest[i+1+j+1:])
			ord := 1
			if strings.HasPrefix(rest, "#") {
				f := strings.Fields(rest)[0]
				ord, _ = strconv.Atoi(f[1:])
				rest = strings.TrimSpace(rest[len(f):])
			}
			e, err := parseExpr(rest)
			if err != nil {
				return fmt.Errorf("%s:%d: %v", path, s.line, err)
			}
			cl := &Clause{Kind: "assert", Props: props, Label: label, Text: rest, Expr: e, File: path, Line: s.line}
			lastClause = cl
			curF.Asserts = append(curF.Asserts, &AssertSpec{C: cl, Text: loc, Ord: ord, Optional: s.kw == "assert_if_present", Then: s.kw == "assert_then"})
		case "modifies":
			if curF == nil {
				return fmt.Errorf("%s:%d: modifies outside func", path, s.line)
			}
			curF.ModSet = true
			curF.ModText = s.rest
			if strings.TrimSpace(s.rest) != "nothing" {
				for _, part := range splitTop(s.rest) {
					e, err := parseExpr(part)
					if err != nil {
						return fmt.Errorf("%s:%d: %v", path, s.line, err)
					}
					curF.Modifies = append(curF.Modifies, e)
				}
			}
		case "loop":
			if curF == nil {
				return fmt.Errorf("%s:%d: loop outside func", path, s.line)
			}
			f := strings.Fields(s.rest)
			if len(f) == 0 {
				return fmt.Errorf("%s:%d: loop N expected", path, s.line)
			}
			n, err := strconv.Atoi(f[0])
			if err != nil {
				return fmt.Errorf("%s:%d: loop N expected", path, s.line)
			}
			hdr := ""
			if i := strings.Index(s.rest, "`"); i >= 0 {
				j := strings.LastIndex(s.rest, "`")
				if j > i {
					hdr = s.rest[i+1 : j]
				}
			}
			curLoop = &LoopSpec{N: n, Header: hdr}
			curF.Loops = append(curF.Loops, curLoop)
		case "complete":
			if curLoop == nil {
				return fmt.Errorf("%s:%d: complete outside loop", path, s.line)
			}
			_, label, rest := parseTag(s.rest)
			curLoop.Complete = true
			curLoop.CompleteLabel = label
			if rest = strings.TrimSpace(rest); strings.HasPrefix(rest, "unless ") {
				ex, err := parseExpr(strings.TrimSpace(rest[len("unless "):]))
				if err != nil {
					return fmt.Errorf("%s:%d: complete ... unless: %v", path, s.line, err)
				}
				curLoop.CompleteUnless = ex
				curLoop.CompleteUnlessText = strings.TrimSpace(rest[len("unless "):])
			}
			if label == "" {
				curLoop.CompleteLabel = "no_early_exit"
			}
		case "invariant":
			if curLoop == nil {
				return fmt.Errorf("%s:%d: invariant outside loop", path, s.line)
			}
			c, err := mkClause("invariant", s)
			if err != nil {
				return err
			}
			lastClause = c
			curLoop.Invs = append(curLoop.Invs, c)
		case "decreases":
			var es []Expr
			var when Expr
			if k := strings.Index(s.rest, " when "); k >= 0 {
				w, err := parseExpr(strings.TrimSpace(s.rest[k+6:]))
				if err != nil {
					return fmt.Errorf("%s:%d: %v", path, s.line, err)
				}
				when = w
				s.rest = s.rest[:k]
			}
			for _, part := range splitTop(s.rest) {
				e, err := parseExpr(part)
				if err != nil {
					return fmt.Errorf("%s:%d: %v", path, s.line, err)
				}
				es = append(es, e)
			}
			if curLoop != nil {
				curLoop.Decreases = es
				curLoop.DecWhen = when
				curLoop.DecText = s.rest
			} else if curF != nil {
				curF.Decreases = es
			}
		}
	}
	return nil
}

// splitTop splits on commas that are not nested in brackets.
func splitTop(s string) []string {
	var out []string
	depth := 0
	start := 0
	for i, c := range s {
		switch c {
		case '(', '[', '{':
			depth++
		case ')', ']', '}':
			depth--
		case ',':
			if depth == 0 {
				out = append(out, strings.TrimSpace(s[start:i]))
				start = i + 1
			}
		}
	}
	if strings.TrimSpace(s[start:]) != "" {
		out = append(out, strings.TrimSpace(s[start:]))
	}
	return out
}

var funcKeyRe = regexp.MustCompile(`^(?:\(\s*\w*\s*(\*?)\s*([\w.]+)\s*\)\s*)?([\w$#]+)$`)

// parseFuncKey turns "(b *Bounds) Extend" into "(*Bounds).Extend".
func parseFuncKey(s string) (string, error) {
	s = strings.TrimSpace(s)
	if strings.HasPrefix(s, "(") && strings.Contains(s, ").") {
		return s, nil // already in SSA form
	}
	m := funcKeyRe.FindStringSubmatch(s)
	if m == nil {
		return "", fmt.Errorf("cannot parse function key %q", s)
	}
	if m[2] == "" {
		return m[3], nil
	}
	return "(" + m[1] + m[2] + ")." + m[3], nil
}

func parseParams(src string) ([]Param, error) {
	var ps []Param
	for _, part := range splitTop(src) {
		f := strings.SplitN(strings.TrimSpace(part), " ", 2)
		if len(f) != 2 {
			return nil, fmt.Errorf("bad parameter %q", part)
		}
		te, err := parseTypeExpr(strings.TrimSpace(f[1]))
		if err != nil {
			return nil, err
		}
		ps = append(ps, Param{f[0], te})
	}
	return ps, nil
}

func matchParen(s string, open int) int {
	depth := 0
	for i := open; i < len(s); i++ {
		switch s[i] {
		case '(':
			depth++
		case ')':
			depth--
			if depth == 0 {
				return i
			}
		}
	}
	return -1
}

// spec name(params) Type [decreases e] = body   |  spec name(params) Type   (uninterpreted)
func parseSpecDef(s string, pred bool) (*SpecFunc, error) {
	i := strings.Index(s, "(")
	if i < 0 {
		return nil, fmt.Errorf("spec: '(' expected in %q", s)
	}
	j := matchParen(s, i)
	if j < 0 {
		return nil, fmt.Errorf("spec: unbalanced parens in %q", s)
	}
	sf := &SpecFunc{Name: strings.TrimSpace(s[:i]), Text: s}
	ps, err := parseParams(s[i+1 : j])
	if err != nil {
		return nil, err
	}
	sf.Params = ps
	rest := strings.TrimSpace(s[j+1:])
	var body string
	if k := strings.Index(rest, "="); k >= 0 && !strings.HasPrefix(rest[k:], "==") {
		// first '=' that is not part of '==', '<=', '>=' , '!='
		k = findDefEq(rest)
		if k >= 0 {
			body = strings.TrimSpace(rest[k+1:])
			rest = strings.TrimSpace(rest[:k])
		}
	}
	if d := strings.Index(rest, "decreases"); d >= 0 {
		de, err := parseExpr(strings.TrimSpace(rest[d+len("decreases"):]))
		if err != nil {
			return nil, err
		}
		sf.Decreases = de
		sf.Rec = true
		rest = strings.TrimSpace(rest[:d])
	}
	if pred {
		sf.Ret = &TypeExpr{Kind: "name", Name: "bool"}
	} else {
		te, err := parseTypeExpr(rest)
		if err != nil {
			return nil, fmt.Errorf("spec %s: return type: %v", sf.Name, err)
		}
		sf.Ret = te
	}
	if body != "" {
		e, err := parseExpr(body)
		if err != nil {
			return nil, fmt.Errorf("spec %s: %v", sf.Name, err)
		}
		sf.Body = e
	}
	return sf, nil
}

func findDefEq(s string) int {
	for k := 0; k < len(s); k++ {
		if s[k] == '=' {
			if k+1 < len(s) && s[k+1] == '=' {
				k++
				continue
			}
			if k > 0 && (s[k-1] == '<' || s[k-1] == '>' || s[k-1] == '!' || s[k-1] == '=') {
				continue
			}
			return k
		}
	}
	return -1
}

func parseLemmaHead(s string) (*Lemma, error) {
	i := strings.Index(s, "(")
	if i < 0 {
		return &Lemma{Name: strings.TrimSpace(s)}, nil
	}
	j := matchParen(s, i)
	if j < 0 {
		return nil, fmt.Errorf("lemma: unbalanced parens")
	}
	ps, err := parseParams(s[i+1 : j])
	if err != nil {
		return nil, err
	}
	return &Lemma{Name: strings.TrimSpace(s[:i]), Params: ps}, nil
}

// loadAllContracts reads zz_contracts_verif.go from every package dir under
// repo and every *.spec in extDir.
func loadAllContracts(repo string, pkgDirs map[string]string, extDir string) (*Contracts, error) {
	cs := newContracts()
	var paths []string
	for ip := range pkgDirs {
		paths = append(paths, ip)
	}
	sort.Strings(paths)
	for _, ip := range paths {
		matches, _ := filepath.Glob(filepath.Join(pkgDirs[ip], "zz_contracts*_verif.go"))
		sort.Strings(matches)
		for _, f := range matches {
			if err := cs.loadContractFile(f, ip, false); err != nil {
				return nil, err
			}
		}
	}
	cs.repoPkgs = map[string]bool{}
	for p := range pkgDirs {
		cs.repoPkgs[p] = true
	}
	exts, _ := filepath.Glob(filepath.Join(extDir, "*.spec"))
	sort.Strings(exts)
	for _, f := range exts {
		if err := cs.loadContractFile(f, "", true); err != nil {
			return nil, err
		}
	}
	return cs, nil
}
