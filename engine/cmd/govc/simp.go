package main

import (
	"fmt"
	"strings"
)

// Light-weight syntactic simplification of heap terms. Everything here is an
// equivalence-preserving rewrite (select-over-store at a syntactically equal
// or provably distinct position, constructor/accessor cancellation); it only
// keeps the queries small, soundness does not depend on it.

type heapDef struct{ base, obj, arr string }
type arrDef struct{ base, idx, val string }

// splitArgs splits "(f a b c)" into ["f","a","b","c"] at top level.
func splitArgs(t string) []string {
	t = strings.TrimSpace(t)
	if !strings.HasPrefix(t, "(") || !strings.HasSuffix(t, ")") {
		return nil
	}
	t = t[1 : len(t)-1]
	var out []string
	depth := 0
	start := -1
	for i := 0; i < len(t); i++ {
		ch := t[i]
		switch {
		case ch == '(':
			if depth == 0 && start < 0 {
				start = i
			}
			depth++
		case ch == ')':
			depth--
			if depth == 0 {
				out = append(out, t[start:i+1])
				start = -1
			}
		case ch == ' ' || ch == '\n' || ch == '\t':
			if depth == 0 && start >= 0 {
				out = append(out, t[start:i])
				start = -1
			}
		default:
			if depth == 0 && start < 0 {
				start = i
			}
		}
	}
	if start >= 0 {
		out = append(out, t[start:])
	}
	return out
}

func (c *Ctx) unfold(t string) string {
	for i := 0; i < 4; i++ {
		d, ok := c.defs[t]
		if !ok {
			return t
		}
		t = d
	}
	return t
}

// acc applies an accessor (pobj, pidx, sobj, soff, slen, scap, itag, ival)
// to a term, cancelling against a visible constructor.
func (c *Ctx) acc(name, t string) string {
	u := c.unfold(t)
	if a := splitArgs(u); a != nil {
		switch a[0] {
		case "mkptr":
			if len(a) == 3 {
				switch name {
				case "pobj":
					return a[1]
				case "pidx":
					return a[2]
				}
			}
		case "mkslice":
			if len(a) == 5 {
				switch name {
				case "sobj":
					return a[1]
				case "soff":
					return a[2]
				case "slen":
					return a[3]
				case "scap":
					return a[4]
				}
			}
		case "mkiface":
			if len(a) == 3 {
				switch name {
				case "itag":
					return a[1]
				case "ival":
					return a[2]
				}
			}
		}
	}
	switch u {
	case "nilptr", "nilslice":
		return "0"
	}
	return "(" + name + " " + t + ")"
}

func isFreshObj(t string) bool { return strings.HasPrefix(t, "obj_") }

func isParamObj(t string) bool {
	return strings.HasPrefix(t, "(pobj p_") || strings.HasPrefix(t, "(sobj p_") || strings.HasPrefix(t, "glob_")
}

// distinctObjs: syntactically provable disequality of two object terms.
func distinctObjs(a, b string) bool {
	if a == b {
		return false
	}
	if isFreshObj(a) && (isFreshObj(b) || isParamObj(b)) {
		return true
	}
	if isFreshObj(b) && isParamObj(a) {
		return true
	}
	return false
}

func distinctIdx(a, b string) bool {
	if isStrLitName(a) && isStrLitName(b) {
		// string literals: one constant per distinct string (strLit), asserted pairwise distinct
		return a != b
	}
	x, ok1 := constTermInt(a)
	y, ok2 := constTermInt(b)
	return ok1 && ok2 && x != y
}

func isStrLitName(s string) bool {
	if !strings.HasPrefix(s, "str_") || len(s) == 4 {
		return false
	}
	for _, ch := range s[4:] {
		if ch < '0' || ch > '9' {
			return false
		}
	}
	return true
}

// rdObj: contents (Array Int S) of object obj in heap h.
func (c *Ctx) rdObj(h, obj string) string {
	cur := h
	if en, ok := c.oldSame[cur]; ok && c.objOld(obj, 0) {
		// a havocked heap agrees with the entry heap on pre-existing objects (proved
		// frame); reading an entry-time object needs no frame reasoning in the solver
		cur = en
	}
	for i := 0; i < 64; i++ {
		d, ok := c.heapDefs[cur]
		if !ok {
			break
		}
		if d.obj == obj {
			return d.arr
		}
		if distinctObjs(d.obj, obj) {
			cur = d.base
			continue
		}
		break
	}
	return "(select " + cur + " " + obj + ")"
}

// rdIdx: element idx of array term arr.
func (c *Ctx) rdIdx(arr, idx string) string {
	cur := arr
	for i := 0; i < 64; i++ {
		d, ok := c.arrDefs[cur]
		if !ok {
			break
		}
		if d.idx == idx {
			return d.val
		}
		if distinctIdx(d.idx, idx) {
			cur = d.base
			continue
		}
		break
	}
	if strings.HasPrefix(cur, "((as const ") {
		// constant array: ((as const (Array Int S)) v)
		if a := splitArgs(cur); len(a) == 2 {
			return a[1]
		}
	}
	return "(select " + cur + " " + idx + ")"
}

func (c *Ctx) rd(h, obj, idx string) string { return c.rdIdx(c.rdObj(h, obj), idx) }

// wrObj replaces the contents of an object.
func (c *Ctx) wrObj(st *State, key, obj, arr string) {
	h := c.heap(st, key)
	n := c.fresh(heapKey(key))
	c.cmds = append(c.cmds, fmt.Sprintf("(declare-fun %s () %s)", n, c.heapSortOf(key)), fmt.Sprintf("(assert (= %s (store %s %s %s)))", n, h, obj, arr))
	c.heapDefs[n] = heapDef{h, obj, arr}
	if isFreshObj(obj) {
		// writing a fresh object leaves pre-existing objects alone
		if en, ok := c.oldSame[h]; ok {
			c.oldSame[n] = en
		} else if strings.HasSuffix(h, "_0") && strings.HasPrefix(h, "H_") {
			c.oldSame[n] = h
		}
	}
	st.heaps[key] = n
}

// arrStore names (store arr idx val).
func (c *Ctx) arrStore(arr, idx, val, arrSort string) string {
	n := c.fresh("arr")
	c.cmds = append(c.cmds, fmt.Sprintf("(define-fun %s () %s (store %s %s %s))", n, arrSort, arr, idx, val))
	c.arrDefs[n] = arrDef{arr, idx, val}
	return n
}

// wrElem writes one element.
func (c *Ctx) wrElem(st *State, key, obj, idx, val string) {
	h := c.heap(st, key)
	arr := c.rdObj(h, obj)
	c.wrObj(st, key, obj, c.arrStore(arr, idx, val, "(Array Int "+baseSort(key)+")"))
}

// objOld: the object term denotes an object that existed at function entry:
// it is built from parameters, captured cells, globals and entry heaps only
// (integer/float/bool leaves such as loop counters are irrelevant).
func (c *Ctx) objOld(t string, depth int) bool {
	if depth > 6 {
		return false
	}
	i := 0
	for i < len(t) {
		ch := t[i]
		if !(ch == '_' || ch >= 'a' && ch <= 'z' || ch >= 'A' && ch <= 'Z') {
			i++
			continue
		}
		j := i
		for j < len(t) && isIdentChar(t[j]) {
			j++
		}
		id := t[i:j]
		i = j
		if strings.HasPrefix(id, "H_") {
			if !strings.HasSuffix(id, "_0") {
				return false
			}
			continue
		}
		if !strings.Contains(id, "!") {
			continue
		}
		if strings.HasPrefix(id, "p_") || strings.HasPrefix(id, "fv_") {
			continue
		}
		if strings.HasPrefix(id, "obj_") {
			return false
		}
		if d, ok := c.defs[id]; ok {
			if !c.objOld(d, depth+1) {
				return false
			}
			continue
		}
		if srt, ok := c.constSort[id]; ok {
			switch srt {
			case "Int", "Bool", "F", "Real":
				continue
			}
			return false
		}
		return false
	}
	return true
}
