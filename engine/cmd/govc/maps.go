package main

import (
	"strings"
	"fmt"
	"go/types"
	"math"

	"golang.org/x/tools/go/ssa"
)

var posInf = math.Inf(1)
var negInf = math.Inf(-1)

func nan() float64 { return math.NaN() }

// Maps: a map value is an object id (0 = nil map). Two heaps per (K,V):
//   dom : Array Int (Array K Bool)     val : Array Int (Array K V)

func (c *Ctx) mapKey(t types.Type) string {
	mt := t.Underlying().(*types.Map)
	// reference-typed elements of different Go types share an SMT sort (Ptr, Slice,
	// Int for maps); the Go type is kept in the key (after '@') so that maps of
	// different Go types live in different heaps and cannot alias
	v := c.sortOf(mt.Elem())
	if isRefType(mt.Elem()) {
		v += "@" + sanitize(types.TypeString(mt.Elem(), nil))
	}
	return "map!" + c.sortOf(mt.Key()) + "!" + v
}

// mapValSort strips the Go-type tag from the value part of a map key.
func mapValSort(v string) string {
	if i := strings.Index(v, "@"); i >= 0 {
		return v[:i]
	}
	return v
}

func (c *Ctx) mapHeaps(st *State, t types.Type) (dom, val string) {
	mt := t.Underlying().(*types.Map)
	k := c.mapKey(t)
	ks, vs := c.sortOf(mt.Key()), c.sortOf(mt.Elem())
	c.heapSorts[k+"!dom"] = "(Array Int (Array " + ks + " Bool))"
	c.heapSorts[k+"!val"] = "(Array Int (Array " + ks + " " + vs + "))"
	dom = c.heap(st, k+"!dom")
	val = c.heap(st, k+"!val")
	// the nil map is empty
	c.declOnce("nilmap:"+k, fmt.Sprintf("(assert (= (select %s 0) ((as const (Array %s Bool)) false)))", c.heap(newEntryState(), k+"!dom"), ks))
	return
}

func (fr *frame) execMakeMap(x *ssa.MakeMap, st *State) {
	c := fr.c
	mt := x.Type().Underlying().(*types.Map)
	ks := c.sortOf(mt.Key())
	obj := fr.allocObj(st, x.Name())
	dom, _ := c.mapHeaps(st, x.Type())
	k := c.mapKey(x.Type())
	c.setHeap(st, k+"!dom", fmt.Sprintf("(store %s %s ((as const (Array %s Bool)) false))", dom, obj, ks))
	fr.vals[x] = Val{T: obj, Ty: x.Type()}
}

func (fr *frame) execMapUpdate(x *ssa.MapUpdate, st *State) {
	c := fr.c
	m := fr.val(x.Map)
	kv := fr.val(x.Key)
	vv := fr.val(x.Value)
	fr.safety("nilmap", fmt.Sprintf("(not (= %s 0))", m.T), "assignment to entry in nil map", x.Pos())
	dom, val := c.mapHeaps(st, x.Map.Type())
	k := c.mapKey(x.Map.Type())
	c.setHeap(st, k+"!dom", fmt.Sprintf("(store %s %s (store (select %s %s) %s true))", dom, m.T, dom, m.T, kv.T))
	c.setHeap(st, k+"!val", fmt.Sprintf("(store %s %s (store (select %s %s) %s %s))", val, m.T, val, m.T, kv.T, vv.T))
}

func (fr *frame) mapDelete(st *State, t types.Type, m, kv Val) {
	c := fr.c
	dom, _ := c.mapHeaps(st, t)
	k := c.mapKey(t)
	c.setHeap(st, k+"!dom", ite(fmt.Sprintf("(= %s 0)", m.T), dom, fmt.Sprintf("(store %s %s (store (select %s %s) %s false))", dom, m.T, dom, m.T, kv.T)))
}

func (fr *frame) mapLen(st *State, t types.Type, m string) string {
	c := fr.c
	mt := t.Underlying().(*types.Map)
	ks := c.sortOf(mt.Key())
	dom, _ := c.mapHeaps(st, t)
	fn := "mapcard_" + sanitize(ks)
	c.declOnce("mapcard:"+fn, fmt.Sprintf("(declare-fun %s ((Array %s Bool)) Int)\n(assert (forall ((d (Array %s Bool))) (! (>= (%s d) 0) :pattern ((%s d)))))\n(assert (= (%s ((as const (Array %s Bool)) false)) 0))", fn, ks, ks, fn, fn, fn, ks))
	return fmt.Sprintf("(%s (select %s %s))", fn, dom, m)
}

func (fr *frame) execLookup(x *ssa.Lookup, st *State) {
	c := fr.c
	if _, ok := x.X.Type().Underlying().(*types.Map); !ok {
		// string index
		s := fr.val(x.X)
		i := fr.val(x.Index)
		fr.safety("index", fmt.Sprintf("(and (>= %s 0) (< %s (strlen %s)))", i.T, i.T, s.T), "string index out of range", x.Pos())
		c.declOnce("strat", "(declare-fun strat (Str Int) Int)\n(assert (forall ((s Str) (i Int)) (! (and (>= (strat s i) 0) (<= (strat s i) 255)) :pattern ((strat s i)))))")
		fr.vals[x] = Val{T: fmt.Sprintf("(strat %s %s)", s.T, i.T), Ty: x.Type()}
		return
	}
	m := fr.val(x.X)
	kv := fr.val(x.Index)
	mt := x.X.Type().Underlying().(*types.Map)
	dom, val := c.mapHeaps(st, x.X.Type())
	has := c.define("has", "Bool", fmt.Sprintf("(select (select %s %s) %s)", dom, m.T, kv.T))
	v := Val{T: c.define("mv", c.sortOf(mt.Elem()), ite(has, fmt.Sprintf("(select (select %s %s) %s)", val, m.T, kv.T), c.zero(mt.Elem()))), Ty: mt.Elem()}
	fr.assumeWF(v, st)
	if x.CommaOk {
		fr.vals[x] = Val{Ty: x.Type(), Tuple: []Val{v, {T: has, Ty: types.Typ[types.Bool]}}}
		return
	}
	fr.vals[x] = v
}

// Range/Next over maps and strings: each Next yields an arbitrary key of the
// map (no order, no completeness — completeness needs a ghost visited set,
// supplied by loop invariants through the `visited` ghost of the loop).
func (fr *frame) execRange(x *ssa.Range, st *State) {
	v := fr.val(x.X)
	fr.vals[x] = Val{T: v.T, Ty: x.X.Type()}
}

func (fr *frame) execNext(x *ssa.Next, st *State) {
	c := fr.c
	it := fr.val(x.Iter)
	if x.IsString {
		fr.unsup("range over string")
		return
	}
	mt := it.Ty.Underlying().(*types.Map)
	dom, val := c.mapHeaps(st, it.Ty)
	ok := c.declConst("next_ok", "Bool")
	k := c.declConst("next_k", c.sortOf(mt.Key()))
	fr.assumeR(implies(ok, fmt.Sprintf("(select (select %s %s) %s)", dom, it.T, k)))
	// when the iteration ends every key present at the start has been visited:
	// visited-set reasoning is supplied through the ghost array of this loop
	vis := fr.visitedSet(x, st, mt)
	if vis != "" {
		fr.assumeR(implies(ok, fmt.Sprintf("(not (select %s %s))", vis, k)))
		fr.assumeR(implies(not(ok), fmt.Sprintf("(forall ((kk %s)) (! (=> (select (select %s %s) kk) (select %s kk)) :pattern ((select %s kk))))", c.sortOf(mt.Key()), dom, it.T, vis, vis)))
	}
	v := Val{T: c.define("next_v", c.sortOf(mt.Elem()), fmt.Sprintf("(select (select %s %s) %s)", val, it.T, k)), Ty: mt.Elem()}
	kvv := Val{T: k, Ty: mt.Key()}
	fr.assumeWF(v, st)
	fr.assumeWF(kvv, st)
	fr.vals[x] = Val{Ty: x.Type(), Tuple: []Val{{T: ok, Ty: types.Typ[types.Bool]}, kvv, v}}
	fr.lastNext[x.Iter] = k
}

// visitedSet returns the ghost "visited keys" array of the map-range loop
// whose header contains this Next (declared as a loop-carried ghost).
func (fr *frame) visitedSet(x *ssa.Next, st *State, mt *types.Map) string {
	li := fr.loops[x.Block()]
	if li == nil {
		return ""
	}
	return li.visited
}
