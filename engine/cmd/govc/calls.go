package main

import (
	"fmt"
	"go/constant"
	"go/token"
	"go/types"
	"sort"
	"strings"

	"golang.org/x/tools/go/ssa"
)

const repoPrefix = "github.com/ctessum/geom"

var scanDeps = []string{repoPrefix, "github.com/ctessum/polyclip-go", "github.com/jonas-p/go-shp"}

func inScanScope(fn *ssa.Function) bool {
	p := funcPkg(fn)
	if p == nil {
		return false
	}
	for _, s := range scanDeps {
		if strings.HasPrefix(p.Path(), s) {
			return true
		}
	}
	return false
}

type writeSet struct {
	keys      map[string]bool
	allocKeys map[string]bool // heaps in which fresh objects may be created
	allocs    bool
	all       bool
}

func newWriteSet() *writeSet { return &writeSet{keys: map[string]bool{}, allocKeys: map[string]bool{}} }
func (w *writeSet) add(o *writeSet) {
	for k := range o.keys {
		w.keys[k] = true
	}
	for k := range o.allocKeys {
		w.allocKeys[k] = true
	}
	w.allocs = w.allocs || o.allocs
	w.all = w.all || o.all
}

// staticRoot walks back an address computation to its root.
func staticRoot(v ssa.Value) (root ssa.Value, elem types.Type) {
	for {
		switch x := v.(type) {
		case *ssa.FieldAddr:
			v = x.X
			continue
		case *ssa.IndexAddr:
			if pt, ok := x.X.Type().Underlying().(*types.Pointer); ok {
				if _, isArr := pt.Elem().Underlying().(*types.Array); isArr {
					// array element: local arrays keep static path; heap arrays are element objects
					if a, ok := x.X.(*ssa.Alloc); ok && !a.Heap {
						v = x.X
						continue
					}
					if _, ok := x.X.(*ssa.FieldAddr); ok {
						v = x.X
						continue
					}
					return x, pt.Elem().Underlying().(*types.Array).Elem()
				}
			}
			if st, ok := x.X.Type().Underlying().(*types.Slice); ok {
				return x, st.Elem()
			}
			return x, nil
		}
		break
	}
	if pt, ok := v.Type().Underlying().(*types.Pointer); ok {
		if at, ok := pt.Elem().Underlying().(*types.Array); ok {
			if a, isAlloc := v.(*ssa.Alloc); !isAlloc || a.Heap {
				return v, at.Elem()
			}
		}
		return v, pt.Elem()
	}
	return v, nil
}

func (c *Ctx) instrWrites(ins ssa.Instruction, keys map[string]bool, locals map[*ssa.Alloc]bool, allocs *bool, visiting map[*ssa.Function]bool, fr *frame) {
	switch x := ins.(type) {
	case *ssa.Store:
		root, elem := staticRoot(x.Addr)
		if a, ok := root.(*ssa.Alloc); ok && !a.Heap && fr != nil && !fr.allocNeedsHeap(a) {
			locals[a] = true
			return
		}
		if a, ok := root.(*ssa.Alloc); ok && !a.Heap && fr == nil {
			// callee-local cell: invisible to the caller unless it needs the heap
			tmp := &frame{c: c}
			if !tmp.allocNeedsHeap(a) {
				return
			}
		}
		if elem != nil {
			keys[c.hk(elem)] = true
		}
	case *ssa.Alloc:
		if x.Heap || (fr != nil && fr.allocNeedsHeap(x)) || fr == nil {
			rt := x.Type().Underlying().(*types.Pointer).Elem()
			if at, ok := rt.Underlying().(*types.Array); ok {
				keys[c.hk(at.Elem())] = true
				keys["+"+c.hk(at.Elem())] = true
			} else if x.Heap {
				keys[c.hk(rt)] = true
				keys["+"+c.hk(rt)] = true
			}
			*allocs = true
		}
	case *ssa.MakeSlice:
		keys[c.hk(x.Type().Underlying().(*types.Slice).Elem())] = true
		keys["+"+c.hk(x.Type().Underlying().(*types.Slice).Elem())] = true
		*allocs = true
	case *ssa.MakeMap:
		keys[c.mapKey(x.Type())] = true
		*allocs = true
	case *ssa.MakeClosure:
		*allocs = true
	case *ssa.MapUpdate:
		keys[c.mapKey(x.Map.Type())] = true
	case *ssa.Call:
		if c.invisibleCall(&x.Call) {
			*allocs = true
			return
		}
		w := c.callWrites(&x.Call, visiting)
		for k := range w.keys {
			keys[k] = true
		}
		for k := range w.allocKeys {
			keys["+"+k] = true
		}
		if w.allocs {
			*allocs = true
		}
		if w.all {
			keys["*"] = true
			*allocs = true
		}
	case *ssa.Defer:
		w := c.callWrites(&x.Call, visiting)
		for k := range w.keys {
			keys[k] = true
		}
		for k := range w.allocKeys {
			keys["+"+k] = true
		}
		if w.allocs {
			*allocs = true
		}
		if w.all {
			keys["*"] = true
		}
	}
}

// invisibleCall: a statically resolved callee under a contract that modifies
// nothing and returns no reference has no heap effect the caller can observe.
func (c *Ctx) invisibleCall(call *ssa.CallCommon) bool {
	fn := call.StaticCallee()
	if fn == nil || call.IsInvoke() {
		return false
	}
	fc := c.prog.contractFor(fn)
	if fc == nil || fc.Inline || len(fc.Modifies) > 0 {
		return false
	}
	for _, t := range resultTypes(fn.Signature) {
		if isRefType(t) {
			return false
		}
	}
	return true
}

func (c *Ctx) callWrites(call *ssa.CallCommon, visiting map[*ssa.Function]bool) *writeSet {
	w := newWriteSet()
	if call.IsInvoke() {
		// union over repository implementations (closed world)
		it := call.Value.Type().Underlying().(*types.Interface)
		if fc := c.ifaceContract(call.Value.Type(), call.Method.Name()); fc != nil && fc.Opts["writes"] != "" {
			return c.declaredWrites(fc)
		}
		for _, t := range c.prog.implementers(it, repoPrefix) {
			ms := c.prog.SSA.MethodSets.MethodSet(t)
			sel := ms.Lookup(call.Method.Pkg(), call.Method.Name())
			if sel == nil {
				continue
			}
			fn := c.prog.SSA.MethodValue(sel)
			if fn != nil {
				w.add(c.funcWrites(fn, visiting))
			}
		}
		return w
	}
	switch v := call.Value.(type) {
	case *ssa.Builtin:
		switch v.Name() {
		case "append":
			w.keys[c.hk(call.Args[0].Type().Underlying().(*types.Slice).Elem())] = true
			w.allocKeys[c.hk(call.Args[0].Type().Underlying().(*types.Slice).Elem())] = true
			w.allocs = true
		case "copy":
			w.keys[c.hk(call.Args[0].Type().Underlying().(*types.Slice).Elem())] = true
		case "delete":
			w.keys[c.mapKey(call.Args[0].Type())] = true
		}
		return w
	case *ssa.Function:
		return c.funcWrites(v, visiting)
	case *ssa.MakeClosure:
		return c.funcWrites(v.Fn.(*ssa.Function), visiting)
	}
	// dynamic call through a function value
	if named, ok := call.Value.Type().(*types.Named); ok {
		if fc := c.prog.Contracts.FuncTys[named.Obj().Pkg().Path()+"::"+named.Obj().Name()]; fc != nil {
			return c.declaredWrites(fc)
		}
	}
	w.all = true
	return w
}

func (c *Ctx) declaredWrites(fc *FuncContract) *writeSet {
	w := newWriteSet()
	for _, k := range c.optSortKeys(fc.Opts["havoc"], c.prog.TypesPkgs[fc.Pkg]) {
		w.keys[k] = true
		w.allocKeys[k] = true
		w.allocs = true
	}
	if s := fc.Opts["writes"]; s != "" && s != "none" {
		for _, part := range strings.Split(s, ",") {
			part = strings.TrimSpace(part)
			if part == "alloc" {
				w.allocs = true
				continue
			}
			te, err := parseTypeExpr(part)
			if err == nil {
				if t := c.resolveType(te, c.prog.TypesPkgs[fc.Pkg]); t != nil {
					w.keys[c.hk(t)] = true
					w.allocKeys[c.hk(t)] = true
					w.allocs = true
				}
			}
		}
	}
	return w
}

var writesMemo = map[*ssa.Function]*writeSet{}

func (c *Ctx) funcWrites(fn *ssa.Function, visiting map[*ssa.Function]bool) *writeSet {
	if w, ok := writesMemo[fn]; ok {
		// sort strings are mode independent except F which is always "F"
		return w
	}
	if visiting[fn] {
		return newWriteSet()
	}
	if fc := c.prog.contractFor(fn); fc != nil && ((fc.External && !fc.verifiedDep()) || fc.Trusted != "" || fc.Opts["callwrites"] == "declared") && fc.Opts["writes"] != "" {
		// `opt callwrites=declared` on a verified function: callers havoc only the heaps listed in
		// `opt writes=` (as for a trusted contract) instead of everything the body scan finds; the
		// body's frame obligations still show that no pre-existing object outside `modifies` changes
		if fc.Opts["callwrites"] == "declared" {
			c.assumed["write set of "+funcDisplay(fn)+" at call sites is the declared one (opt callwrites=declared)"] = true
		}
		return c.declaredWrites(fc)
	}
	if isPureExternal(fn) {
		return newWriteSet()
	}
	if !inScanScope(fn) || len(fn.Blocks) == 0 {
		if fc := c.prog.contractFor(fn); fc != nil {
			return c.declaredWrites(fc)
		}
		w := newWriteSet()
		w.all = true
		return w
	}
	visiting[fn] = true
	w := newWriteSet()
	locals := map[*ssa.Alloc]bool{}
	for _, b := range fn.Blocks {
		for _, ins := range b.Instrs {
			c.instrWrites(ins, w.keys, locals, &w.allocs, visiting, nil)
		}
	}
	if w.keys["*"] {
		w.all = true
		delete(w.keys, "*")
	}
	for k := range w.keys {
		if strings.HasPrefix(k, "+") {
			w.allocKeys[k[1:]] = true
			delete(w.keys, k)
		}
	}
	delete(visiting, fn)
	if len(visiting) == 0 || (len(visiting) == 1) {
		writesMemo[fn] = w
	}
	return w
}

func isPureExternal(fn *ssa.Function) bool {
	p := funcPkg(fn)
	if p == nil {
		return false
	}
	switch p.Path() {
	case "math":
		return true
	case "errors":
		return fn.Name() == "New"
	case "fmt":
		return fn.Name() == "Errorf" || fn.Name() == "Sprintf" || fn.Name() == "Sprint"
	}
	return false
}

// ---------- calls ----------

func (fr *frame) setResult(x ssa.Value, rs []Val) {
	if x == nil {
		return
	}
	if tup, ok := x.Type().(*types.Tuple); ok {
		if tup.Len() == 0 {
			return
		}
		fr.vals[x] = Val{Ty: x.Type(), Tuple: rs}
		return
	}
	if len(rs) == 1 {
		fr.vals[x] = rs[0]
	}
}

func (fr *frame) execCall(x *ssa.Call, st *State) {
	if isPkgInit(fr.fn) {
		if callee := x.Call.StaticCallee(); isInitCallee(callee) {
			// Inside the package initialiser: initialisers of imported packages cannot reach this
			// package's unexported variables, and this package's own init functions are shown not to
			// write the variables the contract speaks about (checkInitOnlyGlobals). Skipped.
			fr.c.assumed["package initialiser: calls to other initialisers ("+callee.String()+" ...) are skipped; they cannot write the variables named in the contract (imported packages by visibility, init functions by a scan of the package for writes)"] = true
			return
		}
	}
	rs := fr.doCall(&x.Call, st, x.Pos(), x)
	fr.setResult(x, rs)
}

func resultTypes(sig *types.Signature) []types.Type {
	var ts []types.Type
	for i := 0; i < sig.Results().Len(); i++ {
		ts = append(ts, sig.Results().At(i).Type())
	}
	return ts
}

func (fr *frame) doCall(call *ssa.CallCommon, st *State, pos token.Pos, site ssa.Value) []Val {
	c := fr.c
	fr.curCall = call
	if call.IsInvoke() {
		return fr.invoke(call, st, pos)
	}
	var args []Val
	for _, a := range call.Args {
		args = append(args, fr.val(a))
	}
	switch v := call.Value.(type) {
	case *ssa.Builtin:
		return fr.builtin(v, call, args, st, pos, site)
	case *ssa.Function:
		return fr.callFunc(v, nil, args, st, pos)
	case *ssa.MakeClosure:
		cv := fr.val(v)
		return fr.callFunc(v.Fn.(*ssa.Function), cv.Clos.bindings, args, st, pos)
	}
	fv := fr.val(call.Value)
	if fv.Clos != nil {
		return fr.callFunc(fv.Clos.fn, fv.Clos.bindings, args, st, pos)
	}
	// dynamic call through a named func type with a contract
	sig := call.Signature()
	if named, ok := call.Value.Type().(*types.Named); ok {
		if fc := c.prog.Contracts.FuncTys[named.Obj().Pkg().Path()+"::"+named.Obj().Name()]; fc != nil {
			names := []string{}
			for i := 0; i < sig.Params().Len(); i++ {
				n := sig.Params().At(i).Name()
				if n == "" || n == "_" {
					n = fmt.Sprintf("arg%d", i) // unnamed parameters of the func type
				}
				names = append(names, n)
			}
			extra := map[string]Val{"self": fv}
			return fr.applyContract(fc, "functype "+named.Obj().Name(), names, args, extra, resultTypes(sig), st, pos, c.declaredWrites(fc), sig)
		}
	}
	fr.safety("nilfunc", fmt.Sprintf("(not (= %s 0))", fv.T), "call of nil function value", pos)
	fr.unsup("dynamic call through %s without functype contract", call.Value.Type())
	return fr.havocResults(resultTypes(sig), st)
}

func (fr *frame) havocResults(ts []types.Type, st *State) []Val {
	var rs []Val
	for _, t := range ts {
		v := Val{T: fr.c.declConst("res", fr.c.sortOf(t)), Ty: t}
		fr.assumeWF(v, st)
		rs = append(rs, v)
	}
	return rs
}

func (fr *frame) callFunc(fn *ssa.Function, bindings []Val, args []Val, st *State, pos token.Pos) []Val {
	c := fr.c
	sig := fn.Signature
	if rs, ok := fr.externalModel(fn, args, st, pos); ok {
		return rs
	}
	fc := c.prog.contractFor(fn)
	if fc != nil && !fc.Inline {
		var names []string
		for _, p := range fn.Params {
			names = append(names, p.Name())
		}
		extra := map[string]Val{}
		for i, fvv := range fn.FreeVars {
			if i < len(bindings) {
				extra[fvv.Name()] = bindings[i]
			}
		}
		if (fc.External && !fc.verifiedDep()) || fc.Trusted != "" {
			c.assumed["assumed contract: "+funcDisplay(fn)+" ("+fc.Trusted+")"] = true
		}
		return fr.applyContract(fc, funcDisplay(fn), names, args, extra, resultTypes(sig), st, pos, c.funcWrites(fn, map[*ssa.Function]bool{}), sig)
	}
	// inline small loop-free functions
	if (inScanScope(fn) || (fc != nil && fc.Inline)) && len(fn.Blocks) > 0 && fr.depth < 4 && !hasLoop(fn) && !isRecursive(fn) {
		return fr.inline(fn, bindings, args, st, pos)
	}
	fr.unsup("call to %s: no contract, not inlinable", fn)
	return fr.havocResults(resultTypes(sig), st)
}

func hasLoop(fn *ssa.Function) bool {
	for _, b := range fn.Blocks {
		for _, s := range b.Succs {
			if isBackEdge(b, s) {
				return true
			}
		}
	}
	return false
}

func isRecursive(fn *ssa.Function) bool {
	for _, b := range fn.Blocks {
		for _, ins := range b.Instrs {
			if call, ok := ins.(ssa.CallInstruction); ok {
				if callee := call.Common().StaticCallee(); callee == fn {
					return true
				}
			}
		}
	}
	return false
}

func (fr *frame) inline(fn *ssa.Function, bindings []Val, args []Val, st *State, pos token.Pos) []Val {
	c := fr.c
	sub := c.newFrame(fn, nil, fr.depth+1)
	sub.name = fr.name
	sub.props = fr.props
	sub.sites = fr.sites
	sub.panicOK = fr.panicOK
	sub.noSafety = fr.noSafety
	sub.modObjs = fr.modObjs
	sub.top = false
	for i, fv := range fn.FreeVars {
		if i < len(bindings) {
			sub.vals[fv] = bindings[i]
		}
	}
	sub.run(args, st, fr.curReach)
	sub.entry = fr.entry
	fr.unsupported = append(fr.unsupported, sub.unsupported...)
	if len(sub.returns) == 0 {
		// never returns normally
		fr.assumeR("false")
		return fr.havocResults(resultTypes(fn.Signature), st)
	}
	var conds []string
	var sts []*State
	for _, r := range sub.returns {
		conds = append(conds, r.reach)
		sts = append(sts, r.st)
	}
	// control continues only if some return was reached
	merged := fr.mergeStates(conds, sts)
	*st = *merged
	if len(sub.returns) > 0 {
		fr.curReach = c.define("reach_inl", "Bool", or(conds...))
	}
	var rs []Val
	rts := resultTypes(fn.Signature)
	for i, t := range rts {
		term := sub.returns[len(sub.returns)-1].results[i].T
		same := true
		for _, r := range sub.returns {
			if r.results[i].T != term {
				same = false
			}
			if r.results[i].Path != nil || r.results[i].Local != nil {
				fr.unsup("inlined callee returns pointer with static path")
			}
		}
		if !same {
			for k := len(sub.returns) - 2; k >= 0; k-- {
				term = ite(sub.returns[k].reach, sub.returns[k].results[i].T, term)
			}
			term = c.define("inl", c.sortOf(t), term)
		}
		v := Val{T: term, Ty: t}
		if len(sub.returns) == 1 {
			v.Clos = sub.returns[0].results[i].Clos
		}
		rs = append(rs, v)
	}
	return rs
}

// applyContract: assert pre, havoc, assume post.
func (fr *frame) applyContract(fc *FuncContract, display string, names []string, args []Val, extra map[string]Val, rts []types.Type, st *State, pos token.Pos, w *writeSet, sig *types.Signature) []Val {
	c := fr.c
	pre := st.clone()
	env := &SpecEnv{c: c, fr: fr, vars: map[string]Val{}, st: pre, old: pre, pkg: c.prog.TypesPkgs[fc.Pkg]}
	for i, n := range names {
		if i < len(args) {
			env.vars[n] = args[i]
		}
	}
	for k, v := range extra {
		env.vars[k] = v
	}
	for _, tr := range fc.TypeReqs {
		fr.typeReqObligation(fc, display, names, tr, pos)
	}
	for _, r := range fc.Requires {
		v := env.trBool(r.Expr)
		label := display + ":" + r.Label
		if c.trustPre[pkgNameOf(fc.Pkg)] || c.trustPre[pkgNameOf(fc.Pkg)+"."+fc.Key] {
			// opt trustpre=<pkg>: the caller relies on the dependency's own invariant
			fr.assumeR(v)
			c.assumed["precondition ["+r.Label+"] of "+display+" is assumed at its call sites in "+fr.name+" (opt trustpre: the invariant of that package is the subject of its own property)"] = true
			continue
		}
		fr.oblige("requires", label, propsOr(r.Props, fr.props), v, "precondition of "+display+": "+r.Text, pos)
	}
	recovers := len(fc.Panics) > 0 && fr.top && fr.fn.Recover != nil && len(fr.deferred) > 0 && !fr.inRecovery
	if recovers {
		var conds []string
		for _, p := range fc.Panics {
			conds = append(conds, env.trBool(p.Expr))
		}
		fr.recoverPath(fc, display, or(conds...), st, pos)
	}
	for _, p := range fc.Panics {
		if recovers {
			break // the panic does not leave this function: see recoverPath
		}
		v := env.trBool(p.Expr)
		fr.oblige("safety", "callpanic:"+display+":"+p.Label, nil, implies(v, fr.panicOK), "callee may panic: "+p.Text, pos)
		// a panics clause licenses a panic ("only if"); it does not promise one, so
		// nothing may be assumed about it after a normal return
	}
	// havoc what the callee may write
	var keys []string
	if w.all {
		for k := range st.heaps {
			w.keys[k] = true
		}
		c.assumed["call to "+display+" havocs all known heaps"] = true
	}
	c.expandMapKeys(w)
	// modifies objects, evaluated in the pre-state
	var mods []modItem
	for _, m := range fc.Modifies {
		mods = append(mods, env.modItems(m)...)
	}
	for _, m := range mods {
		// what the contract says may change is written, whatever the body scan found
		w.keys[m.sortKey] = true
	}
	for k := range w.keys {
		keys = append(keys, k)
	}
	sort.Strings(keys)
	preAlloc := st.alloc
	if w.allocs || w.all || len(keys) > 0 {
		na := c.declConst("alloc_call", "Int")
		fr.assumeR(fmt.Sprintf("(>= %s %s)", na, preAlloc))
		st.alloc = na
	}
	// opt havoc=T1,T2: the callee may change any object of these sorts (no frame is assumed)
	havocKeys := map[string]bool{}
	for _, k := range c.optSortKeys(fc.Opts["havoc"], c.prog.TypesPkgs[fc.Pkg]) {
		havocKeys[k] = true
		w.keys[k] = true
		w.allocKeys[k] = true
	}
	if len(havocKeys) > 0 {
		keys = nil
		for k := range w.keys {
			keys = append(keys, k)
		}
		sort.Strings(keys)
	}
	// a callee that modifies nothing and returns no reference cannot make its
	// fresh objects visible to the caller: the caller's heaps stay as they are
	invisible := len(mods) == 0 && !w.all && len(havocKeys) == 0
	for _, t := range rts {
		if isRefType(t) {
			invisible = false
		}
	}
	if invisible {
		keys = nil
	}
	for _, k := range keys {
		old := c.heap(st, k)
		if !w.allocKeys[k] && !w.all && !strings.HasPrefix(k, "map!") {
			// no fresh object of this sort: only the modifies objects change (quantifier-free)
			for _, m := range mods {
				if m.sortKey != k {
					continue
				}
				if m.idx == "" {
					na := c.declConst("modobj", "(Array Int "+baseSort(k)+")")
					c.wrObj(st, k, m.obj, na)
				} else {
					ne := c.declConst("modelem", baseSort(k))
					c.wrElem(st, k, m.obj, m.idx, ne)
				}
			}
			continue
		}
		nh := c.newHeapConst(k, "_call", st.alloc)
		st.heaps[k] = nh
		if havocKeys[k] {
			c.assumed["call to "+display+" may change any object of sort "+k+" (opt havoc)"] = true
			continue
		}
		if !hasMod(mods, k) && !strings.HasPrefix(k, "map!") {
			c.heapPrev[nh] = heapPrevInfo{prev: old, preAlloc: preAlloc, reach: fr.curReach}
		}
		if src, ok := c.oldSame[old]; (ok || old == c.heap(fr.entry, k)) && !hasMod(mods, k) {
			// the callee leaves pre-existing objects alone and so did everything before it
			_ = src
			fr.markOldSame(k, nh)
		}
		fr.assumeR(frameFormula(k, nh, old, "", preAlloc, mods, strings.HasPrefix(k, "map!")))
	}
	rs := fr.havocResults(rts, st)
	post := &SpecEnv{c: c, fr: fr, vars: env.vars, st: st, old: pre, pkg: env.pkg, results: rs, resultNames: resultNames(sig)}
	post.oldAlloc = preAlloc
	for _, e := range fc.Ensures {
		if e.Local {
			continue
		}
		fr.assumeR(post.trBool(e.Expr))
		for _, u := range e.Using {
			c.lemmasUsed[u] = true
		}
	}
	for _, e := range fc.Defines {
		fr.assumeR(post.trBool(e.Expr))
		c.assumed["definitional abstraction (determinism of "+display+"): "+e.Text] = true
	}
	return rs
}

func hasMod(mods []modItem, key string) bool {
	for _, m := range mods {
		if m.sortKey == key {
			return true
		}
	}
	return false
}

func resultNames(sig *types.Signature) []string {
	var ns []string
	if sig == nil {
		return nil
	}
	for i := 0; i < sig.Results().Len(); i++ {
		ns = append(ns, sig.Results().At(i).Name())
	}
	return ns
}

func (c *Ctx) ifaceContract(ifaceT types.Type, method string) *FuncContract {
	named, ok := ifaceT.(*types.Named)
	if !ok {
		return nil
	}
	it := named.Underlying().(*types.Interface)
	for _, ic := range c.prog.Contracts.Ifaces {
		if ic.Method != method {
			continue
		}
		// the contract's interface must be this one or embedded in it
		obj := c.prog.TypesPkgs[ic.Pkg]
		if obj == nil {
			continue
		}
		tn, _ := obj.Scope().Lookup(ic.Iface).(*types.TypeName)
		if tn == nil {
			continue
		}
		cit, ok := tn.Type().Underlying().(*types.Interface)
		if !ok {
			continue
		}
		if types.Identical(tn.Type(), named) || types.Implements(named, cit) && hasMethod(it, method) {
			return ic.C
		}
	}
	return nil
}

func hasMethod(it *types.Interface, name string) bool {
	for i := 0; i < it.NumMethods(); i++ {
		if it.Method(i).Name() == name {
			return true
		}
	}
	return false
}

func (fr *frame) invoke(call *ssa.CallCommon, st *State, pos token.Pos) []Val {
	c := fr.c
	recv := fr.val(call.Value)
	var args []Val
	for _, a := range call.Args {
		args = append(args, fr.val(a))
	}
	sig := call.Signature()
	fr.safety("nil", fmt.Sprintf("(not (= (itag %s) 0))", recv.T), "method call on nil interface: "+c.prog.sourceLine(c.prog.Fset.Position(pos)), pos)
	if fc := c.ifaceContract(call.Value.Type(), call.Method.Name()); fc != nil {
		var names []string
		for i := 0; i < sig.Params().Len(); i++ {
			names = append(names, sig.Params().At(i).Name())
		}
		extra := map[string]Val{"self": recv}
		return fr.applyContract(fc, "interface "+call.Value.Type().String()+"."+call.Method.Name(), names, args, extra, resultTypes(sig), st, pos, c.callWrites(call, map[*ssa.Function]bool{}), sig)
	}
	if call.Method.Name() == "Error" && sig.Params().Len() == 0 {
		c.assumed["error.Error() (uninterpreted, pure)"] = true
		return []Val{{T: c.ufun("errstr", "Str", []string{"Iface"}, recv.T), Ty: types.Typ[types.String]}}
	}
	fr.unsup("interface call %s.%s without interface contract", call.Value.Type(), call.Method.Name())
	return fr.havocResults(resultTypes(sig), st)
}

// ---------- builtins ----------

func (fr *frame) builtin(b *ssa.Builtin, call *ssa.CallCommon, args []Val, st *State, pos token.Pos, site ssa.Value) []Val {
	switch b.Name() {
	case "len":
		switch call.Args[0].Type().Underlying().(type) {
		case *types.Slice:
			return []Val{{T: "(slen " + args[0].T + ")", Ty: types.Typ[types.Int]}}
		case *types.Basic:
			return []Val{{T: "(strlen " + args[0].T + ")", Ty: types.Typ[types.Int]}}
		case *types.Map:
			return []Val{{T: fr.mapLen(st, call.Args[0].Type(), args[0].T), Ty: types.Typ[types.Int]}}
		case *types.Array:
			return []Val{{T: fmt.Sprint(call.Args[0].Type().Underlying().(*types.Array).Len()), Ty: types.Typ[types.Int]}}
		case *types.Pointer:
			at := call.Args[0].Type().Underlying().(*types.Pointer).Elem().Underlying().(*types.Array)
			return []Val{{T: fmt.Sprint(at.Len()), Ty: types.Typ[types.Int]}}
		}
	case "cap":
		if _, ok := call.Args[0].Type().Underlying().(*types.Slice); ok {
			return []Val{{T: "(scap " + args[0].T + ")", Ty: types.Typ[types.Int]}}
		}
	case "append":
		return []Val{fr.doAppend(call, args, st, pos)}
	case "copy":
		return []Val{fr.doCopy(call, args, st, pos)}
	case "delete":
		fr.mapDelete(st, call.Args[0].Type(), args[0], args[1])
		return nil
	case "recover":
		// outside a deferred closure executed on the panic path recover() returns nil
		return []Val{fr.recoverVal()}
	case "print", "println":
		return nil
	case "min", "max":
		if len(args) == 2 && isInteger(args[0].Ty) {
			f := "imin"
			if b.Name() == "max" {
				f = "imax"
			}
			return []Val{{T: "(" + f + " " + args[0].T + " " + args[1].T + ")", Ty: args[0].Ty}}
		}
	}
	fr.unsup("builtin %s on %s", b.Name(), call.Args[0].Type())
	if site != nil {
		return fr.havocResults([]types.Type{site.Type()}, st)
	}
	return nil
}

func (fr *frame) recoverVal() Val {
	if fr.c.recoverTerm != "" {
		// first recover() on a simulated panic path stops the panic
		t := fr.c.recoverTerm
		fr.c.recoverTerm = ""
		fr.c.recoverCalled = true
		return Val{T: t, Ty: types.NewInterfaceType(nil, nil)}
	}
	if fr.recoverTerm != "" {
		return Val{T: fr.recoverTerm, Ty: types.NewInterfaceType(nil, nil)}
	}
	return Val{T: "niliface", Ty: types.NewInterfaceType(nil, nil)}
}

// singleVararg detects append(s, x) compiled as a one-element varargs slice.
func (fr *frame) singleVararg(v ssa.Value) (ssa.Value, bool) {
	sl, ok := v.(*ssa.Slice)
	if !ok {
		return nil, false
	}
	al, ok := sl.X.(*ssa.Alloc)
	if !ok || al.Comment != "varargs" {
		return nil, false
	}
	at, ok := al.Type().Underlying().(*types.Pointer).Elem().Underlying().(*types.Array)
	if !ok || at.Len() != 1 {
		return nil, false
	}
	for _, r := range *al.Referrers() {
		if ia, ok := r.(*ssa.IndexAddr); ok {
			for _, r2 := range *ia.Referrers() {
				if s, ok := r2.(*ssa.Store); ok && s.Addr == ia {
					return s.Val, true
				}
			}
		}
	}
	return nil, false
}

func (fr *frame) doAppend(call *ssa.CallCommon, args []Val, st *State, pos token.Pos) Val {
	c := fr.c
	s, t := args[0], args[1]
	stype := call.Args[0].Type()
	et := stype.Underlying().(*types.Slice).Elem()
	es := c.hk(et)
	h := c.heap(st, es)
	n := "(slen " + s.T + ")"
	if isString(call.Args[1].Type()) {
		// append([]byte, string...)
		fr.unsup("append of string to []byte")
		return Val{T: c.declConst("app", "Slice"), Ty: stype}
	}
	k := "(slen " + t.T + ")"
	total := c.define("app_n", "Int", fmt.Sprintf("(+ %s %s)", n, k))
	inplace := c.define("app_inplace", "Bool", fmt.Sprintf("(<= %s (scap %s))", total, s.T))
	newObj := fr.allocObj(st, "app")
	newCap := c.declConst("app_cap", "Int")
	fr.assumeR(fmt.Sprintf("(>= %s %s)", newCap, total))
	res := c.define("app", "Slice", ite(inplace, fmt.Sprintf("(mkslice (sobj %s) (soff %s) %s (scap %s))", s.T, s.T, total, s.T), fmt.Sprintf("(mkslice %s 0 %s %s)", newObj, total, newCap)))
	// contents
	oldArr := c.rdObj(h, c.acc("sobj", s.T))
	if xv, ok := fr.singleVararg(call.Args[1]); ok {
		x := fr.val(xv)
		inArr := fmt.Sprintf("(store %s (+ (soff %s) %s) %s)", oldArr, s.T, n, x.T)
		freshArr := c.declConst("app_arr", "(Array Int "+baseSort(es)+")")
		fr.assumeR(fmt.Sprintf("(forall ((j Int)) (! (=> (and (<= 0 j) (< j %s)) (= (select %s j) (select %s (+ (soff %s) j)))) :pattern ((select %s j))))", n, freshArr, oldArr, s.T, freshArr))
		fr.assumeR(fmt.Sprintf("(= (select %s %s) %s)", freshArr, n, x.T))
		// the fresh object exists (unreferenced) also when the append is done in place
		c.wrObj(st, es, newObj, freshArr)
		c.wrObj(st, es, c.acc("sobj", s.T), c.define("app_arr", "(Array Int "+baseSort(es)+")", ite(inplace, inArr, oldArr)))
		fr.ghostAllocCond(st, not(inplace), newCap, et)
		return Val{T: res, Ty: stype}
	}
	srcArr := c.rdObj(h, c.acc("sobj", t.T))
	inArr := c.declConst("app_in", "(Array Int "+baseSort(es)+")")
	fr.assumeR(fmt.Sprintf("(forall ((j Int)) (! (= (select %s j) (ite (and (<= (+ (soff %s) %s) j) (< j (+ (soff %s) %s))) (select %s (+ (soff %s) (- j (+ (soff %s) %s)))) (select %s j))) :pattern ((select %s j))))",
		inArr, s.T, n, s.T, total, srcArr, t.T, s.T, n, oldArr, inArr))
	freshArr := c.declConst("app_arr", "(Array Int "+baseSort(es)+")")
	fr.assumeR(fmt.Sprintf("(forall ((j Int)) (! (and (=> (and (<= 0 j) (< j %s)) (= (select %s j) (select %s (+ (soff %s) j)))) (=> (and (<= %s j) (< j %s)) (= (select %s j) (select %s (+ (soff %s) (- j %s)))))) :pattern ((select %s j))))",
		n, freshArr, oldArr, s.T, n, total, freshArr, srcArr, t.T, n, freshArr))
	c.wrObj(st, es, newObj, freshArr)
	c.wrObj(st, es, c.acc("sobj", s.T), c.define("app_arr", "(Array Int "+baseSort(es)+")", ite(inplace, inArr, oldArr)))
	// ghost fact naming the operation (usable by axioms about concatenation)
	c.declOnce("appendOf", "(declare-fun appendOf (Slice Slice Slice) Bool)")
	fr.assumeR(fmt.Sprintf("(appendOf %s %s %s)", res, s.T, t.T))
	// Consequences of the two cases, stated once on the result slice (absolute positions):
	// its first n elements are s's old elements, the next k are t's old elements.
	rarr := c.define("app_res_arr", "(Array Int "+baseSort(es)+")", ite(inplace, inArr, freshArr))
	roff := fmt.Sprintf("(soff %s)", res)
	fr.assumeR(fmt.Sprintf("(= (select %s (sobj %s)) %s)", c.heap(st, es), res, rarr))
	fr.assumeR(fmt.Sprintf("(forall ((j Int)) (! (and (=> (and (<= %s j) (< j (+ %s %s))) (= (select %s j) (select %s (+ (soff %s) (- j %s))))) (=> (and (<= (+ %s %s) j) (< j (+ %s %s))) (= (select %s j) (select %s (+ (soff %s) (- j (+ %s %s))))))) :pattern ((select %s j))))",
		roff, roff, n, rarr, oldArr, s.T, roff,
		roff, n, roff, total, rarr, srcArr, t.T, roff, n, rarr))
	fr.ghostAllocCond(st, not(inplace), newCap, et)
	return Val{T: res, Ty: stype}
}

func (fr *frame) ghostAllocCond(st *State, cond, n string, et types.Type) {
	sz := fr.c.prog.sizeof(et)
	cur, ok := st.ghost["allocated"]
	if !ok {
		cur = "allocated_0"
		fr.c.declOnce("allocated_0", "(declare-fun allocated_0 () Int)")
	}
	st.ghost["allocated"] = fr.c.define("allocated", "Int", fmt.Sprintf("(+ %s (ite %s (* %d %s) 0))", cur, cond, sz, n))
}

func (fr *frame) doCopy(call *ssa.CallCommon, args []Val, st *State, pos token.Pos) Val {
	c := fr.c
	d, s := args[0], args[1]
	et := call.Args[0].Type().Underlying().(*types.Slice).Elem()
	es := c.hk(et)
	if isString(call.Args[1].Type()) {
		fr.unsup("copy from string")
		return Val{T: "0", Ty: types.Typ[types.Int]}
	}
	h := c.heap(st, es)
	n := c.define("cpy_n", "Int", fmt.Sprintf("(imin (slen %s) (slen %s))", d.T, s.T))
	dArr := fmt.Sprintf("(select %s (sobj %s))", h, d.T)
	sArr := fmt.Sprintf("(select %s (sobj %s))", h, s.T)
	na := c.declConst("cpy_arr", "(Array Int "+baseSort(es)+")")
	fr.assumeR(fmt.Sprintf("(forall ((j Int)) (! (= (select %s j) (ite (and (<= (soff %s) j) (< j (+ (soff %s) %s))) (select %s (+ (soff %s) (- j (soff %s)))) (select %s j))) :pattern ((select %s j))))",
		na, d.T, d.T, n, sArr, s.T, d.T, dArr, na))
	c.setHeap(st, es, ite(fmt.Sprintf("(> %s 0)", n), fmt.Sprintf("(store %s (sobj %s) %s)", h, d.T, na), h))
	return Val{T: n, Ty: types.Typ[types.Int]}
}

// ---------- defers ----------

func (fr *frame) execDefer(x *ssa.Defer, st *State) {
	if x.Call.IsInvoke() {
		fr.unsup("defer of interface method")
		return
	}
	fr.deferred = append(fr.deferred, deferInfo{call: &x.Call, reach: fr.curReach, pos: x.Pos()})
}

type deferInfo struct {
	call  *ssa.CallCommon
	reach string
	pos   token.Pos
}

func (fr *frame) runDefers(st *State) {
	for i := len(fr.deferred) - 1; i >= 0; i-- {
		d := fr.deferred[i]
		saved := fr.curReach
		// deferred call runs only if its defer statement was executed on this path
		if d.reach != fr.reach0 && d.reach != "true" {
			fr.unsup("conditional defer")
		}
		fr.doCall(d.call, st, d.pos, nil)
		fr.curReach = saved
	}
}

// ---------- external models ----------

func constF(v Val) (float64, bool) { return 0, false }

func (fr *frame) externalModel(fn *ssa.Function, args []Val, st *State, pos token.Pos) ([]Val, bool) {
	c := fr.c
	p := funcPkg(fn)
	if p == nil {
		return nil, false
	}
	F := types.Typ[types.Float64]
	fv := func(t string) []Val { return []Val{{T: t, Ty: F}} }
	bv := func(t string) []Val { return []Val{{T: t, Ty: types.Typ[types.Bool]}} }
	switch p.Path() {
	case "math":
		c.assumed["math."+fn.Name()+" per Go documentation / uninterpreted"] = true
		switch fn.Name() {
		case "Min":
			return fv(c.goMinMax(true, args[0].T, args[1].T)), true
		case "Max":
			return fv(c.goMinMax(false, args[0].T, args[1].T)), true
		case "Abs":
			return fv(c.fabs(args[0].T)), true
		case "Inf":
			if args[0].T == "1" || (!strings.HasPrefix(args[0].T, "(-") && args[0].T != "0" && isNumeral(args[0].T)) {
				return fv(c.floatLit(inf(1))), true
			}
			if strings.HasPrefix(args[0].T, "(- ") {
				return fv(c.floatLit(inf(-1))), true
			}
			return fv(ite("(>= "+args[0].T+" 0)", c.floatLit(inf(1)), c.floatLit(inf(-1)))), true
		case "NaN":
			return fv(c.floatLit(nan())), true
		case "IsNaN":
			return bv(c.fisNaN(args[0].T)), true
		case "IsInf":
			return bv(c.fisInf(args[0].T, args[1].T)), true
		case "Sqrt":
			return fv(c.fsqrt(args[0].T)), true
		case "Hypot":
			return fv(c.fsqrt(c.fbin("+", c.fbin("*", args[0].T, args[0].T), c.fbin("*", args[1].T, args[1].T)))), true
		case "Sin", "Cos", "Tan", "Asin", "Acos", "Atan", "Exp", "Log", "Sinh", "Cosh", "Tanh", "Log10", "Floor", "Ceil", "Trunc", "Round":
			return fv(c.ufun("m_"+strings.ToLower(fn.Name()), "F", []string{"F"}, args[0].T)), true
		case "Nextafter":
			// only the strict monotonicity of the step is modelled (A-NUDGE): the result lies
			// strictly on the side of y; its size is unspecified
			r := c.declConst("nextafter", "F")
			x, y := args[0].T, args[1].T
			fr.assumeR(fmt.Sprintf("(and (=> %s %s) (=> %s %s) (=> %s (= %s %s)))", c.fcmp(">", y, x), c.fcmp(">", r, x), c.fcmp("<", y, x), c.fcmp("<", r, x), c.fcmp("==", y, x), r, x))
			if c.mode == ModeXReal {
				fr.assumeR(fmt.Sprintf("(=> (and ((_ is xfin) %s) (not ((_ is xnan) %s))) ((_ is xfin) %s))", x, y, r))
			}
			return fv(r), true
		case "Atan2", "Pow", "Mod", "Copysign":
			return fv(c.ufun("m_"+strings.ToLower(fn.Name()), "F", []string{"F", "F"}, args[0].T, args[1].T)), true
		case "Float64bits":
			if c.mode == ModeUFloat {
				return []Val{{T: "(bv2nat (fbits " + args[0].T + "))", Ty: types.Typ[types.Uint64]}}, true
			}
			return []Val{{T: c.ufun("m_f64bits", "Int", []string{"F"}, args[0].T), Ty: types.Typ[types.Uint64]}}, true
		case "Float64frombits":
			if c.mode == ModeUFloat {
				return fv("(fofbits ((_ int2bv 64) " + args[0].T + "))"), true
			}
			return fv(c.ufun("m_f64frombits", "F", []string{"Int"}, args[0].T)), true
		case "Signbit":
			if c.mode == ModeFP {
				return bv("(fp.isNegative " + args[0].T + ")"), true
			}
			return bv(c.ufun("m_signbit", "Bool", []string{"F"}, args[0].T)), true
		}
	case "errors":
		if fn.Name() == "New" {
			return []Val{fr.freshError(st, "errors.New")}, true
		}
	case "fmt":
		switch fn.Name() {
		case "Errorf":
			return []Val{fr.freshError(st, "fmt.Errorf")}, true
		case "Sprintf", "Sprint":
			c.assumed["fmt.Sprintf returns some string"] = true
			return []Val{{T: c.declConst("sprintf", "Str"), Ty: types.Typ[types.String]}}, true
		}
	}
	return nil, false
}

func isNumeral(s string) bool {
	for _, r := range s {
		if r < '0' || r > '9' {
			return false
		}
	}
	return s != ""
}

func inf(s int) float64 {
	if s >= 0 {
		return posInf
	}
	return negInf
}

// freshError: a non-nil error value of an opaque dynamic type.
func (fr *frame) freshError(st *State, what string) Val {
	c := fr.c
	c.assumed[what+" returns a non-nil error"] = true
	errT := types.Universe.Lookup("error").Type()
	payload := c.declConst("errval", "Int")
	c.declOnce("tag_errorString", "(define-fun tag_errorString () Int 1000000)")
	return Val{T: fmt.Sprintf("(mkiface tag_errorString %s)", payload), Ty: errT}
}

func (c *Ctx) fabs(a string) string {
	if c.mode == ModeXReal {
		return "(ite ((_ is xfin) " + a + ") (xfin (ite (>= (xval " + a + ") 0.0) (xval " + a + ") (- (xval " + a + ")))) (ite ((_ is xnan) " + a + ") xnan xpinf))"
	}
	switch c.mode {
	case ModeFP:
		return "(fp.abs " + a + ")"
	case ModeReal:
		return "(ite (>= " + a + " 0.0) " + a + " (- " + a + "))"
	}
	return c.ufun("m_abs", "F", []string{"F"}, a)
}

func (c *Ctx) fsqrt(a string) string {
	if c.mode == ModeXReal {
		c.declOnce("m_sqrt", "(declare-fun m_sqrt (Real) Real)\n(assert (forall ((x Real)) (! (=> (>= x 0.0) (and (>= (m_sqrt x) 0.0) (= (* (m_sqrt x) (m_sqrt x)) x))) :pattern ((m_sqrt x)))))")
		return "(ite ((_ is xfin) " + a + ") (ite (>= (xval " + a + ") 0.0) (xfin (m_sqrt (xval " + a + "))) xnan) (ite ((_ is xpinf) " + a + ") xpinf xnan))"
	}
	switch c.mode {
	case ModeFP:
		return "(fp.sqrt RNE " + a + ")"
	case ModeReal:
		c.declOnce("m_sqrt", "(declare-fun m_sqrt (Real) Real)\n(assert (forall ((x Real)) (! (=> (>= x 0.0) (and (>= (m_sqrt x) 0.0) (= (* (m_sqrt x) (m_sqrt x)) x))) :pattern ((m_sqrt x)))))")
		return "(m_sqrt " + a + ")"
	}
	return c.ufun("m_sqrt", "F", []string{"F"}, a)
}

func (c *Ctx) fisNaN(a string) string {
	if c.mode == ModeXReal {
		return "((_ is xnan) " + a + ")"
	}
	switch c.mode {
	case ModeFP:
		return "(fp.isNaN " + a + ")"
	case ModeReal:
		return "false"
	}
	return c.ufun("m_isnan", "Bool", []string{"F"}, a)
}

func (c *Ctx) fisInf(a, sign string) string {
	if c.mode == ModeXReal {
		return fmt.Sprintf("(or (and ((_ is xpinf) %s) (>= %s 0)) (and ((_ is xninf) %s) (<= %s 0)))", a, sign, a, sign)
	}
	switch c.mode {
	case ModeFP:
		return fmt.Sprintf("(and (fp.isInfinite %s) (or (= %s 0) (and (> %s 0) (fp.isPositive %s)) (and (< %s 0) (fp.isNegative %s))))", a, sign, sign, a, sign, a)
	case ModeReal:
		return "false"
	}
	return c.ufun("m_isinf", "Bool", []string{"F", "Int"}, a, sign)
}

var _ = constant.MakeBool

// typeReqObligation: a fact about static types at a call site, decided by
// go/types (not by SMT): the value passed for a parameter must implement an
// interface (e.g. gonum's path.Weighted, which path.AStar tests dynamically).
func (fr *frame) typeReqObligation(fc *FuncContract, display string, names []string, tr TypeReq, pos token.Pos) {
	c := fr.c
	call := fr.curCall
	idx := -1
	for i, n := range names {
		if n == tr.Param {
			idx = i
		}
	}
	te, err := parseTypeExpr(tr.Iface)
	var it *types.Interface
	if err == nil {
		if t := c.resolveType(te, c.prog.TypesPkgs[fc.Pkg]); t != nil {
			it, _ = t.Underlying().(*types.Interface)
		}
	}
	claim, text := "false", ""
	if call == nil || idx < 0 || idx >= len(call.Args) || it == nil {
		text = "cannot resolve type requirement " + tr.Param + " implements " + tr.Iface
	} else {
		arg := call.Args[idx]
		var st types.Type = arg.Type()
		if mi, ok := arg.(*ssa.MakeInterface); ok {
			st = mi.X.Type()
		}
		ok := types.Implements(st, it)
		text = fmt.Sprintf("go/types: static type %s of argument %q of %s implements %s: %v", st, tr.Param, display, tr.Iface, ok)
		if ok {
			claim = "true"
		}
	}
	o := fr.oblige("typefact", display+":"+tr.Label, propsOr(tr.Props, fr.props), claim, text, pos)
	o.TypeFact = true
	if claim == "false" {
		// keep later reasoning meaningful: do not assume false
		c.cmds = c.cmds[:len(c.cmds)-1]
	}
}

func pkgNameOf(path string) string {
	if i := strings.LastIndex(path, "/"); i >= 0 {
		return path[i+1:]
	}
	return path
}

// expandMapKeys replaces write keys "map!K!V" (a map update somewhere in the
// callee) by the two heaps that model maps of that type.
func (c *Ctx) expandMapKeys(w *writeSet) {
	for _, set := range []map[string]bool{w.keys, w.allocKeys} {
		for k := range set {
			parts := strings.Split(k, "!")
			if len(parts) != 3 || parts[0] != "map" {
				continue
			}
			delete(set, k)
			c.heapSorts[k+"!dom"] = "(Array Int (Array " + parts[1] + " Bool))"
			c.heapSorts[k+"!val"] = "(Array Int (Array " + parts[1] + " " + mapValSort(parts[2]) + "))"
			set[k+"!dom"] = true
			set[k+"!val"] = true
		}
	}
}

// optSortKeys resolves a comma-separated option value (type names, or raw
// heap keys written sort:<key>) to heap sort keys.
func (c *Ctx) optSortKeys(val string, pkg *types.Package) []string {
	var out []string
	for _, tn := range strings.Split(val, ",") {
		tn = strings.TrimSpace(tn)
		if tn == "" {
			continue
		}
		if strings.HasPrefix(tn, "sort:") {
			k := tn[len("sort:"):]
			parts := strings.Split(k, "!")
			if len(parts) == 4 && parts[0] == "map" {
				base := strings.Join(parts[:3], "!")
				c.heapSorts[base+"!dom"] = "(Array Int (Array " + parts[1] + " Bool))"
				c.heapSorts[base+"!val"] = "(Array Int (Array " + parts[1] + " " + mapValSort(parts[2]) + "))"
			}
			out = append(out, k)
			continue
		}
		if te, err := parseTypeExpr(tn); err == nil {
			if t := c.resolveType(te, pkg); t != nil {
				out = append(out, c.hk(t))
			}
		}
	}
	return out
}

// recoverPath models the path on which a callee panics (possible only under
// its panics condition) and a deferred function of the current function calls
// recover(): the deferred functions run on the pre-call state with recover()
// returning the panic value, then the function returns through its recover
// block with the current values of its named results. The callee must have no
// caller-visible effects (modifies nothing); the panic value has one of the
// callee's panics_with types.
func (fr *frame) recoverPath(fc *FuncContract, display, pcond string, st *State, pos token.Pos) {
	c := fr.c
	if len(fc.Modifies) > 0 {
		fr.unsup("recover after a panic of %s, which modifies caller-visible memory", display)
		return
	}
	saved := fr.curReach
	fr.curReach = and(saved, pcond)
	pst := st.clone()
	rv := c.declConst("panicval", "Iface")
	fr.assumeR(fmt.Sprintf("(not (= (itag %s) 0))", rv))
	if len(fc.PanicsWith) > 0 {
		var alts []string
		for _, te := range fc.PanicsWith {
			if t := c.resolveType(te, c.prog.TypesPkgs[fc.Pkg]); t != nil {
				alts = append(alts, fmt.Sprintf("(= (itag %s) %s)", rv, c.typeTag(t)))
			}
		}
		fr.assumeR(or(alts...))
	}
	c.recoverTerm, c.recoverCalled = rv, false
	fr.inRecovery = true
	fr.runDefers(pst)
	c.recoverTerm = ""
	if !c.recoverCalled {
		fr.oblige("safety", "callpanic:"+display+":not_recovered", nil, fr.panicOK, "callee may panic and no deferred function recovers", pos)
	} else {
		c.assumed["a panic of "+display+" is recovered by the deferred function of "+fr.name+" (modelled: deferred calls run on the pre-call state, recover() yields the panic value, return through the recover block)"] = true
		for _, ins := range fr.fn.Recover.Instrs {
			fr.execInstr(ins, pst)
		}
	}
	fr.inRecovery = false
	fr.curReach = saved
}
