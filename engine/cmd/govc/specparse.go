package main

import (
	"fmt"
	"strings"
	"unicode"
)

// ---- spec expression AST ----

type Expr interface{ String() string }

type (
	EIdent  struct{ Name string }
	EInt    struct{ V string }
	EFloat  struct{ V string }
	EString struct{ V string }
	EBool   struct{ V bool }
	ENil    struct{}
	EUnary  struct {
		Op string
		X  Expr
	}
	EBinary struct {
		Op   string
		X, Y Expr
	}
	ECond  struct{ C, A, B Expr }
	EField struct {
		X    Expr
		Name string
	}
	EIndex struct{ X, I Expr }
	ESlice struct{ X, Lo, Hi Expr }
	ECall  struct {
		Fun  Expr
		Args []Expr
	}
	ETypeAssert struct {
		X Expr
		T *TypeExpr
	}
	EQuant struct {
		Forall bool
		Vars   []Param
		Body   Expr
		Pats   []Expr
	}
	ELet struct {
		Name string
		V, B Expr
	}
	EType struct{ T *TypeExpr } // a type used as an expression (typeof(x) == T)
)

// TypeExpr is a syntactic Go type.
type TypeExpr struct {
	Kind string // "name", "ptr", "slice", "array", "map", "func"
	Pkg  string
	Name string
	Elem *TypeExpr
	Key  *TypeExpr
	N    string
}

func (t *TypeExpr) String() string {
	switch t.Kind {
	case "ptr":
		return "*" + t.Elem.String()
	case "slice":
		return "[]" + t.Elem.String()
	case "array":
		return "[" + t.N + "]" + t.Elem.String()
	case "map":
		return "map[" + t.Key.String() + "]" + t.Elem.String()
	}
	if t.Pkg != "" {
		return t.Pkg + "." + t.Name
	}
	return t.Name
}

type Param struct {
	Name string
	T    *TypeExpr
}

func (e *EIdent) String() string  { return e.Name }
func (e *EInt) String() string    { return e.V }
func (e *EFloat) String() string  { return e.V }
func (e *EString) String() string { return fmt.Sprintf("%q", e.V) }
func (e *EBool) String() string   { return fmt.Sprint(e.V) }
func (e *ENil) String() string    { return "nil" }
func (e *EUnary) String() string  { return e.Op + e.X.String() }
func (e *EBinary) String() string {
	return "(" + e.X.String() + " " + e.Op + " " + e.Y.String() + ")"
}
func (e *ECond) String() string {
	return "(" + e.C.String() + " ? " + e.A.String() + " : " + e.B.String() + ")"
}
func (e *EField) String() string { return e.X.String() + "." + e.Name }
func (e *EIndex) String() string { return e.X.String() + "[" + e.I.String() + "]" }
func (e *ESlice) String() string {
	lo, hi := "", ""
	if e.Lo != nil {
		lo = e.Lo.String()
	}
	if e.Hi != nil {
		hi = e.Hi.String()
	}
	return e.X.String() + "[" + lo + ":" + hi + "]"
}
func (e *ECall) String() string {
	var a []string
	for _, x := range e.Args {
		a = append(a, x.String())
	}
	return e.Fun.String() + "(" + strings.Join(a, ", ") + ")"
}
func (e *ETypeAssert) String() string { return e.X.String() + ".(" + e.T.String() + ")" }
func (e *EQuant) String() string {
	q := "exists"
	if e.Forall {
		q = "forall"
	}
	var v []string
	for _, p := range e.Vars {
		v = append(v, p.Name+" "+p.T.String())
	}
	return "(" + q + " " + strings.Join(v, ", ") + " :: " + e.Body.String() + ")"
}
func (e *ELet) String() string {
	return "(let " + e.Name + " = " + e.V.String() + " in " + e.B.String() + ")"
}
func (e *EType) String() string { return e.T.String() }

// ---- lexer ----

type stok struct {
	kind string // ident int float string op eof
	text string
	pos  int
}

type lexer struct {
	src  string
	toks []stok
	p    int
}

var ops = []string{"<==>", "==>", "::", "&&", "||", "==", "!=", "<=", ">=", "<", ">", "+", "-", "*", "/", "%", "!", "(", ")", "[", "]", ",", ".", ":", "?", "#", "=", "{", "}", "|", "&"}

func lex(src string) ([]stok, error) {
	var toks []stok
	i := 0
	for i < len(src) {
		c := src[i]
		if c == ' ' || c == '\t' || c == '\n' || c == '\r' {
			i++
			continue
		}
		if unicode.IsLetter(rune(c)) || c == '_' {
			j := i
			for j < len(src) && (unicode.IsLetter(rune(src[j])) || unicode.IsDigit(rune(src[j])) || src[j] == '_' || src[j] == '$' || (src[j] == '@' && j+1 < len(src) && (unicode.IsDigit(rune(src[j+1])) || strings.HasPrefix(src[j+1:], "pre")))) {
				j++
			}
			toks = append(toks, stok{"ident", src[i:j], i})
			i = j
			continue
		}
		if unicode.IsDigit(rune(c)) {
			j := i
			isf := false
			for j < len(src) && (unicode.IsDigit(rune(src[j])) || src[j] == '.' || src[j] == 'e' || src[j] == 'E' || ((src[j] == '-' || src[j] == '+') && (src[j-1] == 'e' || src[j-1] == 'E'))) {
				if src[j] == '.' {
					// "1.." or "x.f" — a dot followed by a non-digit ends the number
					if j+1 >= len(src) || !unicode.IsDigit(rune(src[j+1])) {
						break
					}
					isf = true
				}
				if src[j] == 'e' || src[j] == 'E' {
					isf = true
				}
				j++
			}
			k := "int"
			if isf {
				k = "float"
			}
			toks = append(toks, stok{k, src[i:j], i})
			i = j
			continue
		}
		if c == '`' {
			j := strings.IndexByte(src[i+1:], '`')
			if j < 0 {
				return nil, fmt.Errorf("unterminated source-expression quote at %d", i)
			}
			toks = append(toks, stok{"ident", src[i : i+j+2], i})
			i += j + 2
			continue
		}
		if c == '"' {
			j := i + 1
			for j < len(src) && src[j] != '"' {
				if src[j] == '\\' {
					j++
				}
				j++
			}
			if j >= len(src) {
				return nil, fmt.Errorf("unterminated string at %d", i)
			}
			s := src[i+1 : j]
			s = strings.ReplaceAll(s, `\"`, `"`)
			toks = append(toks, stok{"string", s, i})
			i = j + 1
			continue
		}
		matched := false
		for _, op := range ops {
			if strings.HasPrefix(src[i:], op) {
				toks = append(toks, stok{"op", op, i})
				i += len(op)
				matched = true
				break
			}
		}
		if !matched {
			return nil, fmt.Errorf("unexpected character %q at %d in %q", c, i, src)
		}
	}
	toks = append(toks, stok{"eof", "", len(src)})
	return toks, nil
}

// ---- parser ----

type parser struct {
	toks []stok
	p    int
	src  string
}

func (p *parser) peek() stok { return p.toks[p.p] }
func (p *parser) next() stok { t := p.toks[p.p]; p.p++; return t }
func (p *parser) isOp(s string) bool {
	t := p.peek()
	return t.kind == "op" && t.text == s
}
func (p *parser) isIdent(s string) bool {
	t := p.peek()
	return t.kind == "ident" && t.text == s
}
func (p *parser) expectOp(s string) error {
	if !p.isOp(s) {
		return fmt.Errorf("expected %q at %d, got %q in %q", s, p.peek().pos, p.peek().text, p.src)
	}
	p.next()
	return nil
}

func parseExpr(src string) (Expr, error) {
	toks, err := lex(src)
	if err != nil {
		return nil, err
	}
	p := &parser{toks: toks, src: src}
	e, err := p.expr(0)
	if err != nil {
		return nil, err
	}
	if p.peek().kind != "eof" {
		return nil, fmt.Errorf("trailing input at %d (%q) in %q", p.peek().pos, p.peek().text, src)
	}
	return e, nil
}

var binPrec = map[string]int{
	"<==>": 1, "==>": 2, "||": 3, "&&": 4,
	"==": 5, "!=": 5, "<": 5, "<=": 5, ">": 5, ">=": 5,
	"+": 6, "-": 6, "*": 7, "/": 7, "%": 7,
}

func (p *parser) expr(minPrec int) (Expr, error) {
	lhs, err := p.unary()
	if err != nil {
		return nil, err
	}
	for {
		t := p.peek()
		if t.kind != "op" {
			break
		}
		if t.text == "?" && minPrec <= 0 {
			p.next()
			a, err := p.expr(0)
			if err != nil {
				return nil, err
			}
			if err := p.expectOp(":"); err != nil {
				return nil, err
			}
			b, err := p.expr(0)
			if err != nil {
				return nil, err
			}
			lhs = &ECond{lhs, a, b}
			continue
		}
		prec, ok := binPrec[t.text]
		if !ok || prec < minPrec {
			break
		}
		p.next()
		var rhs Expr
		if t.text == "==>" {
			rhs, err = p.expr(prec) // right assoc
		} else {
			rhs, err = p.expr(prec + 1)
		}
		if err != nil {
			return nil, err
		}
		lhs = &EBinary{t.text, lhs, rhs}
	}
	return lhs, nil
}

func (p *parser) unary() (Expr, error) {
	t := p.peek()
	if t.kind == "op" {
		switch t.text {
		case "!", "-":
			p.next()
			x, err := p.unary()
			if err != nil {
				return nil, err
			}
			return &EUnary{t.text, x}, nil
		case "*":
			p.next()
			x, err := p.unary()
			if err != nil {
				return nil, err
			}
			return &EUnary{"*", x}, nil
		case "[":
			// a slice/array type used as expression: []T
			te, err := p.typeExpr()
			if err != nil {
				return nil, err
			}
			return &EType{te}, nil
		}
	}
	if t.kind == "ident" && (t.text == "forall" || t.text == "exists") {
		p.next()
		var vars []Param
		for {
			n := p.next()
			if n.kind != "ident" {
				return nil, fmt.Errorf("expected bound variable at %d in %q", n.pos, p.src)
			}
			names := []string{n.text}
			te, err := p.typeExpr()
			if err != nil {
				return nil, err
			}
			for _, nm := range names {
				vars = append(vars, Param{nm, te})
			}
			if p.isOp(",") {
				p.next()
				continue
			}
			break
		}
		if err := p.expectOp("::"); err != nil {
			return nil, err
		}
		var pats []Expr
		for p.isOp("{") {
			p.next()
			pe, err := p.expr(0)
			if err != nil {
				return nil, err
			}
			pats = append(pats, pe)
			if err := p.expectOp("}"); err != nil {
				return nil, err
			}
		}
		body, err := p.expr(0)
		if err != nil {
			return nil, err
		}
		return &EQuant{t.text == "forall", vars, body, pats}, nil
	}
	if t.kind == "ident" && t.text == "let" {
		p.next()
		n := p.next()
		if err := p.expectOp("="); err != nil {
			return nil, err
		}
		v, err := p.expr(1)
		if err != nil {
			return nil, err
		}
		if !p.isIdent("in") {
			return nil, fmt.Errorf("expected 'in' at %d in %q", p.peek().pos, p.src)
		}
		p.next()
		b, err := p.expr(0)
		if err != nil {
			return nil, err
		}
		return &ELet{n.text, v, b}, nil
	}
	return p.postfix()
}

func (p *parser) postfix() (Expr, error) {
	x, err := p.primary()
	if err != nil {
		return nil, err
	}
	for {
		switch {
		case p.isOp("."):
			p.next()
			if p.isOp("(") {
				p.next()
				te, err := p.typeExpr()
				if err != nil {
					return nil, err
				}
				if err := p.expectOp(")"); err != nil {
					return nil, err
				}
				x = &ETypeAssert{x, te}
				continue
			}
			n := p.next()
			if n.kind != "ident" {
				return nil, fmt.Errorf("expected field name at %d in %q", n.pos, p.src)
			}
			x = &EField{x, n.text}
		case p.isOp("["):
			p.next()
			var lo, hi Expr
			if !p.isOp(":") {
				lo, err = p.expr(0)
				if err != nil {
					return nil, err
				}
			}
			if p.isOp(":") {
				p.next()
				if !p.isOp("]") {
					hi, err = p.expr(0)
					if err != nil {
						return nil, err
					}
				}
				if err := p.expectOp("]"); err != nil {
					return nil, err
				}
				x = &ESlice{x, lo, hi}
				continue
			}
			if err := p.expectOp("]"); err != nil {
				return nil, err
			}
			x = &EIndex{x, lo}
		case p.isOp("("):
			p.next()
			var args []Expr
			for !p.isOp(")") {
				// typeof(x) == T and fresh etc take expressions; T may be *T
				a, err := p.expr(0)
				if err != nil {
					return nil, err
				}
				args = append(args, a)
				if p.isOp(",") {
					p.next()
				}
			}
			p.next()
			x = &ECall{x, args}
		default:
			return x, nil
		}
	}
}

func (p *parser) primary() (Expr, error) {
	t := p.next()
	switch t.kind {
	case "int":
		return &EInt{t.text}, nil
	case "float":
		return &EFloat{t.text}, nil
	case "string":
		return &EString{t.text}, nil
	case "ident":
		switch t.text {
		case "true":
			return &EBool{true}, nil
		case "false":
			return &EBool{false}, nil
		case "nil":
			return &ENil{}, nil
		}
		return &EIdent{t.text}, nil
	case "op":
		if t.text == "(" {
			e, err := p.expr(0)
			if err != nil {
				return nil, err
			}
			if err := p.expectOp(")"); err != nil {
				return nil, err
			}
			return e, nil
		}
		if t.text == "#" {
			n := p.next()
			return &EIdent{"#" + n.text}, nil
		}
	}
	return nil, fmt.Errorf("unexpected token %q at %d in %q", t.text, t.pos, p.src)
}

func (p *parser) typeExpr() (*TypeExpr, error) {
	if p.isOp("*") {
		p.next()
		e, err := p.typeExpr()
		if err != nil {
			return nil, err
		}
		return &TypeExpr{Kind: "ptr", Elem: e}, nil
	}
	if p.isOp("[") {
		p.next()
		if p.isOp("]") {
			p.next()
			e, err := p.typeExpr()
			if err != nil {
				return nil, err
			}
			return &TypeExpr{Kind: "slice", Elem: e}, nil
		}
		n := p.next()
		if err := p.expectOp("]"); err != nil {
			return nil, err
		}
		e, err := p.typeExpr()
		if err != nil {
			return nil, err
		}
		return &TypeExpr{Kind: "array", N: n.text, Elem: e}, nil
	}
	t := p.next()
	if t.kind != "ident" {
		return nil, fmt.Errorf("expected type at %d (%q) in %q", t.pos, t.text, p.src)
	}
	if t.text == "interface" && p.isOp("{") {
		p.next()
		if err := p.expectOp("}"); err != nil {
			return nil, err
		}
		return &TypeExpr{Kind: "name", Name: "any"}, nil
	}
	if t.text == "map" && p.isOp("[") {
		p.next()
		k, err := p.typeExpr()
		if err != nil {
			return nil, err
		}
		if err := p.expectOp("]"); err != nil {
			return nil, err
		}
		e, err := p.typeExpr()
		if err != nil {
			return nil, err
		}
		return &TypeExpr{Kind: "map", Key: k, Elem: e}, nil
	}
	if p.isOp(".") && p.toks[p.p+1].kind == "ident" {
		p.next()
		n := p.next()
		return &TypeExpr{Kind: "name", Pkg: t.text, Name: n.text}, nil
	}
	return &TypeExpr{Kind: "name", Name: t.text}, nil
}

func parseTypeExpr(src string) (*TypeExpr, error) {
	toks, err := lex(src)
	if err != nil {
		return nil, err
	}
	p := &parser{toks: toks, src: src}
	te, err := p.typeExpr()
	if err != nil {
		return nil, err
	}
	if p.peek().kind != "eof" {
		return nil, fmt.Errorf("trailing input in type %q", src)
	}
	return te, nil
}
