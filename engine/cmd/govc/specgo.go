package main

import (
	"fmt"
	"go/types"
	"sort"
	"strings"
)

// Compilation of the executable fragment of spec expressions to Go source,
// used only by replay tests (never by proofs). Returns ok=false for clauses
// outside the fragment (unbounded quantifiers, uninterpreted spec functions).

type goComp struct {
	c       *Ctx
	pkg     *types.Package
	olds    []string          // statements evaluated before the call
	nOld    int
	funcs   map[string]string // generated helper functions
	ok      bool
	why     string
	results []string
	resNames []string
	bound   map[string]bool
	tmp     int
}

func (g *goComp) fail(why string) string {
	if g.ok {
		g.ok = false
		g.why = why
	}
	return "false"
}

func (g *goComp) typeStr(te *TypeExpr) string {
	switch te.Kind {
	case "ptr":
		return "*" + g.typeStr(te.Elem)
	case "slice":
		return "[]" + g.typeStr(te.Elem)
	case "array":
		return "[" + te.N + "]" + g.typeStr(te.Elem)
	case "map":
		return "map[" + g.typeStr(te.Key) + "]" + g.typeStr(te.Elem)
	}
	if te.Name == "real" {
		return "float64"
	}
	if te.Pkg != "" {
		return te.Pkg + "." + te.Name
	}
	return te.Name
}

// rangeGuard recognises  lo <= i && i < hi ==> body   (or with && for exists)
func rangeGuard(v string, e Expr, forall bool) (lo, hi Expr, hiIncl bool, body Expr, ok bool) {
	be, isBin := e.(*EBinary)
	if !isBin {
		return
	}
	var guard Expr
	if forall && be.Op == "==>" {
		guard, body = be.X, be.Y
	} else if !forall && be.Op == "&&" {
		// exists i :: lo <= i && i < hi && body   — peel the first two conjuncts
		conj := flattenAnd(e)
		if len(conj) < 3 {
			return
		}
		guard = &EBinary{"&&", conj[0], conj[1]}
		body = conj[2]
		for _, c := range conj[3:] {
			body = &EBinary{"&&", body, c}
		}
	} else {
		return
	}
	conj := flattenAnd(guard)
	var rest []Expr
	for _, c := range conj {
		cb, isB := c.(*EBinary)
		if isB {
			if id, isId := cb.Y.(*EIdent); isId && id.Name == v && (cb.Op == "<=" || cb.Op == "<") && lo == nil {
				lo = cb.X
				if cb.Op == "<" {
					lo = &EBinary{"+", cb.X, &EInt{"1"}}
				}
				continue
			}
			if id, isId := cb.X.(*EIdent); isId && id.Name == v && (cb.Op == "<" || cb.Op == "<=") && hi == nil {
				hi = cb.Y
				hiIncl = cb.Op == "<="
				continue
			}
			if id, isId := cb.X.(*EIdent); isId && id.Name == v && (cb.Op == ">=" || cb.Op == ">") && lo == nil {
				lo = cb.Y
				if cb.Op == ">" {
					lo = &EBinary{"+", cb.Y, &EInt{"1"}}
				}
				continue
			}
		}
		rest = append(rest, c)
	}
	if lo == nil || hi == nil {
		return nil, nil, false, nil, false
	}
	for _, r := range rest {
		if forall {
			body = &EBinary{"==>", r, body}
		} else {
			body = &EBinary{"&&", r, body}
		}
	}
	return lo, hi, hiIncl, body, true
}

func flattenAnd(e Expr) []Expr {
	if b, ok := e.(*EBinary); ok && b.Op == "&&" {
		return append(flattenAnd(b.X), flattenAnd(b.Y)...)
	}
	return []Expr{e}
}

func (g *goComp) expr(e Expr) string {
	switch x := e.(type) {
	case *EInt:
		return x.V
	case *EFloat:
		return "float64(" + x.V + ")"
	case *EBool:
		return fmt.Sprint(x.V)
	case *EString:
		return fmt.Sprintf("%q", x.V)
	case *ENil:
		return "nil"
	case *EIdent:
		if x.Name == "result" {
			if len(g.results) > 0 {
				return g.results[0]
			}
			return g.fail("no result")
		}
		if strings.HasPrefix(x.Name, "result") && len(x.Name) > 6 {
			var i int
			if _, err := fmt.Sscanf(x.Name[6:], "%d", &i); err == nil && i < len(g.results) {
				return g.results[i]
			}
		}
		for i, n := range g.resNames {
			if n == x.Name && n != "" && i < len(g.results) && !g.bound[x.Name] {
				return g.results[i]
			}
		}
		if strings.HasPrefix(x.Name, "#") {
			return g.fail("loop counter in executable clause")
		}
		return x.Name
	case *EUnary:
		switch x.Op {
		case "!":
			return "!(" + g.expr(x.X) + ")"
		case "-":
			return "-(" + g.expr(x.X) + ")"
		case "*":
			return "(*" + g.expr(x.X) + ")"
		}
	case *EBinary:
		a, b := g.expr(x.X), g.expr(x.Y)
		switch x.Op {
		case "==>":
			return "(!(" + a + ") || (" + b + "))"
		case "<==>":
			return "((" + a + ") == (" + b + "))"
		}
		if (x.Op == "==" || x.Op == "!=") && (isTypeof(x.X) || isTypeof(x.Y)) {
			var val Expr
			var te *TypeExpr
			if isTypeof(x.X) {
				val, te = x.X.(*ECall).Args[0], exprToType(x.Y)
			} else {
				val, te = x.Y.(*ECall).Args[0], exprToType(x.X)
			}
			if te == nil {
				return g.fail("typeof comparison")
			}
			var r string
			if te.Name == "nil" {
				r = "(interface{}(" + g.expr(val) + ") == nil)"
			} else {
				r = "func() bool { _, ok := interface{}(" + g.expr(val) + ").(" + g.typeStr(te) + "); return ok }()"
			}
			if x.Op == "!=" {
				return "!" + r
			}
			return r
		}
		return "(" + a + " " + x.Op + " " + b + ")"
	case *ECond:
		g.tmp++
		return fmt.Sprintf("func() interface{} { if %s { return %s }; return %s }()", g.expr(x.C), g.expr(x.A), g.expr(x.B))
	case *EField:
		return g.expr(x.X) + "." + x.Name
	case *EIndex:
		return g.expr(x.X) + "[" + g.expr(x.I) + "]"
	case *ESlice:
		lo, hi := "", ""
		if x.Lo != nil {
			lo = g.expr(x.Lo)
		}
		if x.Hi != nil {
			hi = g.expr(x.Hi)
		}
		return g.expr(x.X) + "[" + lo + ":" + hi + "]"
	case *ETypeAssert:
		return g.expr(x.X) + ".(" + g.typeStr(x.T) + ")"
	case *EQuant:
		if len(x.Vars) != 1 || x.Vars[0].T.Name != "int" {
			return g.fail("quantifier over a non-integer or several variables")
		}
		v := x.Vars[0].Name
		lo, hi, incl, body, ok := rangeGuard(v, x.Body, x.Forall)
		if !ok {
			return g.fail("unbounded quantifier")
		}
		g.bound[v] = true
		cmp := "<"
		if incl {
			cmp = "<="
		}
		res := ""
		if x.Forall {
			res = fmt.Sprintf("func() bool { for %s := %s; %s %s %s; %s++ { if !(%s) { return false } }; return true }()", v, g.expr(lo), v, cmp, g.expr(hi), v, g.expr(body))
		} else {
			res = fmt.Sprintf("func() bool { for %s := %s; %s %s %s; %s++ { if %s { return true } }; return false }()", v, g.expr(lo), v, cmp, g.expr(hi), v, g.expr(body))
		}
		delete(g.bound, v)
		return res
	case *ELet:
		return fmt.Sprintf("func() bool { %s := %s; _ = %s; return %s }()", x.Name, g.expr(x.V), x.Name, g.expr(x.B))
	case *ECall:
		return g.call(x)
	}
	return g.fail(fmt.Sprintf("expression %s", e))
}

func (g *goComp) call(x *ECall) string {
	id, ok := x.Fun.(*EIdent)
	if !ok {
		return g.fail("call of " + x.Fun.String())
	}
	arg := func(i int) string { return g.expr(x.Args[i]) }
	switch id.Name {
	case "old":
		// evaluate before the call; deep copy is the caller's business: values are copied,
		// so old(*b) and old(b.Min.X) snapshot correctly; old(s[i]) as well.
		saved := g.olds
		inner := g.expr(x.Args[0])
		g.olds = saved
		g.nOld++
		name := fmt.Sprintf("old%d", g.nOld)
		g.olds = append(g.olds, fmt.Sprintf("%s := %s", name, inner))
		return name
	case "len", "cap":
		return id.Name + "(" + arg(0) + ")"
	case "goMin":
		return "math.Min(" + arg(0) + ", " + arg(1) + ")"
	case "goMax":
		return "math.Max(" + arg(0) + ", " + arg(1) + ")"
	case "abs":
		return "math.Abs(float64(" + arg(0) + "))"
	case "sqrt":
		return "math.Sqrt(" + arg(0) + ")"
	case "isNaN":
		return "math.IsNaN(" + arg(0) + ")"
	case "isInf":
		return "math.IsInf(" + arg(0) + ", 0)"
	case "posInf":
		return "math.Inf(1)"
	case "negInf":
		return "math.Inf(-1)"
	case "biteq":
		return "verifBitEq(" + arg(0) + ", " + arg(1) + ")"
	case "fresh":
		return "true /* fresh() is not checked at run time */"
	case "real":
		return "float64(" + arg(0) + ")"
	case "isnil":
		return "(" + arg(0) + " == nil)"
	case "sin", "cos", "tan", "asin", "acos", "atan", "exp", "log", "floor", "atan2", "pow":
		var as []string
		for i := range x.Args {
			as = append(as, "float64("+arg(i)+")")
		}
		return "math." + strings.ToUpper(id.Name[:1]) + id.Name[1:] + "(" + strings.Join(as, ", ") + ")"
	case "allocated", "typeof", "mapHas":
		return g.fail(id.Name + "() is not executable")
	}
	sf := g.c.findSpec(id.Name, g.pkg)
	if sf == nil {
		if te, err := parseTypeExpr(id.Name); err == nil {
			if t := g.c.resolveType(te, g.pkg); t != nil && structOf(t) != nil {
				var as []string
				for i := range x.Args {
					as = append(as, arg(i))
				}
				return id.Name + "{" + strings.Join(as, ", ") + "}"
			}
		}
		return g.fail("unknown function " + id.Name)
	}
	if sf.Body == nil {
		return g.fail("uninterpreted spec function " + id.Name)
	}
	g.genSpecFunc(sf)
	var as []string
	for i := range x.Args {
		as = append(as, arg(i))
	}
	return "verifSpec_" + sf.Name + "(" + strings.Join(as, ", ") + ")"
}

func (g *goComp) genSpecFunc(sf *SpecFunc) {
	if _, done := g.funcs[sf.Name]; done {
		return
	}
	g.funcs[sf.Name] = "" // recursion guard
	sub := &goComp{c: g.c, pkg: g.c.prog.TypesPkgs[sf.Pkg], funcs: g.funcs, ok: true, bound: map[string]bool{}}
	var ps []string
	for _, p := range sf.Params {
		ps = append(ps, p.Name+" "+sub.typeStr(p.T))
		sub.bound[p.Name] = true
	}
	body := sub.expr(sf.Body)
	if !sub.ok {
		g.fail("spec function " + sf.Name + ": " + sub.why)
	}
	ret := sub.typeStr(sf.Ret)
	conv := body
	if ret == "float64" {
		conv = "float64(" + body + ")"
	}
	if _, isCond := sf.Body.(*ECond); isCond {
		conv = body + ".(" + ret + ")"
	}
	g.funcs[sf.Name] = fmt.Sprintf("func verifSpec_%s(%s) %s { return %s }\n", sf.Name, strings.Join(ps, ", "), ret, conv)
}

func (g *goComp) helpers() string {
	var names []string
	for n := range g.funcs {
		names = append(names, n)
	}
	sort.Strings(names)
	var b strings.Builder
	b.WriteString("func verifBitEq(a, b interface{}) bool {\n\tif x, ok := a.(float64); ok {\n\t\tif y, ok := b.(float64); ok {\n\t\t\treturn math.Float64bits(x) == math.Float64bits(y)\n\t\t}\n\t}\n\treturn a == b\n}\n")
	for _, n := range names {
		b.WriteString(g.funcs[n])
	}
	return b.String()
}
