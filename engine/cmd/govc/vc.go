package main

import (
	"fmt"
	"go/token"
	"go/types"
	"math"
	"math/big"
	"sort"
	"strconv"
	"strings"
)

type Mode int

const (
	ModeFP Mode = iota
	ModeReal
	ModeUFloat
	ModeXReal // extended reals: fin(r) | +inf | -inf | nan with IEEE rules for x/0 and comparisons
)

func parseMode(s string) Mode {
	switch s {
	case "fp":
		return ModeFP
	case "ufloat":
		return ModeUFloat
	case "xreal":
		return ModeXReal
	}
	return ModeReal
}

func (m Mode) String() string {
	switch m {
	case ModeFP:
		return "fp"
	case ModeUFloat:
		return "ufloat"
	case ModeXReal:
		return "xreal"
	}
	return "real"
}

// Obligation is one proof goal.
type Obligation struct {
	Name   string
	Kind   string // ensures, requires, inv_init, inv_pres, decreases, safety, modifies, lemma, vacuity
	Props  []string
	Text   string
	Pos    token.Position
	Func   string
	prefix int    // number of ctx.cmds visible to this goal
	goal   string // Bool term that must be valid
	ctx    *Ctx
	Vacuity bool // a probe that must be SAT (goal is the formula that must be satisfiable)
	Using  []string
	Extra  []string // extra assert commands (instantiated lemmas)
	Unsupported string
	TypeFact bool // decided by go/types; goal is literally true or false
	Expr   Expr // the clause (for replay compilation)
}

// Ctx is the VC-building context of one function (or lemma).
type Ctx struct {
	trustPre map[string]bool
	// panicsWith: type tags the function under verification may panic with (nil: not declared)
	panicsWith    []string
	panicsWithSet bool
	// recovery modelling: value returned by recover() on a simulated panic path
	recoverTerm   string
	ufloatLits    map[string]uint64
	recoverCalled bool
	prog     *Program
	mode     Mode
	pkg      *types.Package
	decls    []string
	sortDecls []string
	recForms [][2]string
	lateAxioms []string
	lateBox  []string
	heapBound map[string]string
	oldSame  map[string]string // havocked heap -> entry heap it agrees with on pre-existing objects
	constSort map[string]string
	heapPrev map[string]heapPrevInfo // call-havocked heap -> heap before the call
	preludeLen int
	declared map[string]bool
	cmds     []string
	obls     []*Obligation
	n        int
	tags     map[string]int
	tagTypes []types.Type
	strLits  map[string]string
	specDone map[string]*specInst
	fname    string
	assumed  map[string]bool // assumed contracts / external models used
	errs     []string
	lemmasUsed map[string]bool
	globals  map[string]bool
	heapSorts map[string]string
	defs     map[string]string
	heapDefs map[string]heapDef
	arrDefs  map[string]arrDef
}

func newCtx(prog *Program, mode Mode, pkg *types.Package, fname string) *Ctx {
	c := &Ctx{prog: prog, mode: mode, pkg: pkg, declared: map[string]bool{}, tags: map[string]int{}, strLits: map[string]string{}, specDone: map[string]*specInst{}, fname: fname, assumed: map[string]bool{}, lemmasUsed: map[string]bool{}, globals: map[string]bool{}, heapSorts: map[string]string{}, defs: map[string]string{}, heapDefs: map[string]heapDef{}, arrDefs: map[string]arrDef{}, heapBound: map[string]string{}, oldSame: map[string]string{}, constSort: map[string]string{}, heapPrev: map[string]heapPrevInfo{}}
	c.prelude()
	return c
}

func (c *Ctx) fresh(prefix string) string {
	c.n++
	return fmt.Sprintf("%s!%d", prefix, c.n)
}

func (c *Ctx) decl(s string) { c.decls = append(c.decls, s) }

func (c *Ctx) declOnce(key, s string) {
	if c.declared[key] {
		return
	}
	c.declared[key] = true
	c.decls = append(c.decls, s)
}

// declConst declares a fresh constant and returns its name.
func (c *Ctx) declConst(prefix, sortS string) string {
	n := c.fresh(prefix)
	c.cmds = append(c.cmds, fmt.Sprintf("(declare-fun %s () %s)", n, sortS))
	c.constSort[n] = sortS
	return n
}

// define names a term (keeps queries small and readable).
func (c *Ctx) define(prefix, sortS, term string) string {
	if len(term) < 40 && !strings.Contains(term, " ") {
		return term
	}
	n := c.fresh(prefix)
	if strings.HasPrefix(sortS, "(Array Int (Array") {
		// heaps are named by constants (not macros) so that quantifier patterns can mention them
		c.cmds = append(c.cmds, fmt.Sprintf("(declare-fun %s () %s)", n, sortS), fmt.Sprintf("(assert (= %s %s))", n, term))
		c.defs[n] = term
		return n
	}
	c.cmds = append(c.cmds, fmt.Sprintf("(define-fun %s () %s %s)", n, sortS, term))
	c.defs[n] = term
	return n
}

func (c *Ctx) assume(term string) {
	if term == "true" {
		return
	}
	c.cmds = append(c.cmds, fmt.Sprintf("(assert %s)", term))
}

func (c *Ctx) prelude() {
	switch c.mode {
	case ModeFP:
		c.decl("(define-sort F () (_ FloatingPoint 11 53))")
	case ModeReal:
		c.decl("(define-sort F () Real)")
	case ModeXReal:
		c.decl("(declare-datatypes ((F 0)) (((xfin (xval Real)) (xpinf) (xninf) (xnan))))")
		c.decl("(define-fun xisfin ((a F)) Bool ((_ is xfin) a))")
		c.decl("(define-fun xneg ((a F)) F (ite ((_ is xfin) a) (xfin (- (xval a))) (ite ((_ is xpinf) a) xninf (ite ((_ is xninf) a) xpinf xnan))))")
		c.decl("(define-fun xadd ((a F) (b F)) F (ite (or ((_ is xnan) a) ((_ is xnan) b)) xnan (ite (and ((_ is xfin) a) ((_ is xfin) b)) (xfin (+ (xval a) (xval b))) (ite ((_ is xfin) a) b (ite ((_ is xfin) b) a (ite (= a b) a xnan))))))")
		c.decl("(define-fun xsub ((a F) (b F)) F (xadd a (xneg b)))")
		c.decl("(define-fun xsgn ((a F)) Int (ite ((_ is xfin) a) (ite (> (xval a) 0.0) 1 (ite (< (xval a) 0.0) (- 1) 0)) (ite ((_ is xpinf) a) 1 (ite ((_ is xninf) a) (- 1) 0))))")
		c.decl("(define-fun xmul ((a F) (b F)) F (ite (or ((_ is xnan) a) ((_ is xnan) b)) xnan (ite (and ((_ is xfin) a) ((_ is xfin) b)) (xfin (* (xval a) (xval b))) (ite (= (* (xsgn a) (xsgn b)) 0) xnan (ite (> (* (xsgn a) (xsgn b)) 0) xpinf xninf)))))")
		c.decl("(define-fun xdiv ((a F) (b F)) F (ite (or ((_ is xnan) a) ((_ is xnan) b)) xnan (ite (and ((_ is xfin) a) ((_ is xfin) b)) (ite (not (= (xval b) 0.0)) (xfin (/ (xval a) (xval b))) (ite (> (xval a) 0.0) xpinf (ite (< (xval a) 0.0) xninf xnan))) (ite ((_ is xfin) a) (xfin 0.0) (ite ((_ is xfin) b) (ite (>= (xval b) 0.0) a (xneg a)) xnan)))))")
		c.decl("(define-fun xlt ((a F) (b F)) Bool (and (not ((_ is xnan) a)) (not ((_ is xnan) b)) (ite (and ((_ is xfin) a) ((_ is xfin) b)) (< (xval a) (xval b)) (or (and ((_ is xninf) a) (not ((_ is xninf) b))) (and ((_ is xpinf) b) (not ((_ is xpinf) a)))))))")
		c.decl("(define-fun xeq ((a F) (b F)) Bool (and (not ((_ is xnan) a)) (not ((_ is xnan) b)) (ite (and ((_ is xfin) a) ((_ is xfin) b)) (= (xval a) (xval b)) (= a b))))")
		c.decl("(define-fun xle ((a F) (b F)) Bool (or (xlt a b) (xeq a b)))")
	case ModeUFloat:
		c.decl("(declare-sort F 0)")
		c.decl("(declare-fun fbits (F) (_ BitVec 64))")
		c.decl("(declare-fun fofbits ((_ BitVec 64)) F)")
		c.decl("@@FBITS@@")
		c.decl("(declare-fun flit (Int) F)")
	}
	c.decl("(declare-sort Str 0)")
	c.decl("(declare-fun strlen (Str) Int)")
	c.decl("(declare-datatypes ((Ptr 0)) (((mkptr (pobj Int) (pidx Int)))))")
	c.decl("(define-fun nilptr () Ptr (mkptr 0 0))")
	c.decl("(declare-datatypes ((Slice 0)) (((mkslice (sobj Int) (soff Int) (slen Int) (scap Int)))))")
	c.decl("(define-fun nilslice () Slice (mkslice 0 0 0 0))")
	c.decl("(declare-datatypes ((Iface 0)) (((mkiface (itag Int) (ival Int)))))")
	c.decl("(define-fun niliface () Iface (mkiface 0 0))")
	c.decl("(define-fun wfslice ((s Slice)) Bool (and (>= (sobj s) 0) (>= (soff s) 0) (>= (slen s) 0) (<= (slen s) (scap s)) (=> (= (sobj s) 0) (= (scap s) 0))))")
	c.decl("(define-fun imin ((a Int) (b Int)) Int (ite (<= a b) a b))")
	c.decl("(define-fun imax ((a Int) (b Int)) Int (ite (>= a b) a b))")
	c.decl("(declare-fun closfn (Int) Int)")
	c.decl("@@IX@@")
	c.preludeLen = len(c.decls)
}

// ---------- sorts ----------

func sanitize(s string) string {
	var b strings.Builder
	for _, r := range s {
		switch {
		case r >= 'a' && r <= 'z', r >= 'A' && r <= 'Z', r >= '0' && r <= '9', r == '_':
			b.WriteRune(r)
		case r == '.' || r == '/':
			b.WriteRune('_')
		case r == '*':
			b.WriteString("P")
		case r == '[' || r == ']':
			b.WriteString("S")
		default:
			b.WriteString("_")
		}
	}
	return b.String()
}

func shortPkg(p *types.Package) string {
	if p == nil {
		return ""
	}
	return p.Name()
}

// sortOf maps a Go type to an SMT sort, declaring datatypes on demand.
// sortTypes remembers (across contexts) which Go type a struct sort name stands
// for, so that a sort mentioned only through a memoised write set can be declared.
var sortTypes = map[string]types.Type{}

// hk is the heap key for cells of Go type t: the SMT sort of t, and for
// reference-like cells (slices, pointers, interfaces, maps, funcs, chans) also
// the Go type, so that cells of different Go types never share a heap (they can
// not alias in Go; sharing made nested slices of different depth alias in the
// model).
func (c *Ctx) hk(t types.Type) string {
	s := c.sortOf(t)
	switch s {
	case "Slice", "Ptr", "Iface", "Int":
		if isRefType(t) {
			return s + "@" + sanitize(types.TypeString(t, nil))
		}
	}
	return s
}

// baseSort strips the Go-type tag from a heap key.
func baseSort(key string) string {
	if strings.HasPrefix(key, "map!") {
		return key
	}
	if strings.HasPrefix(key, "ghost!") {
		return "Int"
	}
	if i := strings.Index(key, "@"); i >= 0 {
		return key[:i]
	}
	return key
}

func (c *Ctx) ensureSort(key string) {
	key = baseSort(key)
	if !strings.HasPrefix(key, "T_") || c.declared["struct:"+key] {
		return
	}
	if t, ok := sortTypes[key]; ok {
		c.sortOf(t)
	}
}

func (c *Ctx) sortOf(t types.Type) string {
	switch tt := t.(type) {
	case *types.Named:
		if st, ok := tt.Underlying().(*types.Struct); ok {
			name := "T_" + sanitize(shortPkg(tt.Obj().Pkg())+"_"+tt.Obj().Name())
			sortTypes[name] = t
			c.declStruct(name, st)
			return name
		}
		return c.sortOf(tt.Underlying())
	case *types.Alias:
		return c.sortOf(types.Unalias(tt))
	case *types.Basic:
		switch {
		case tt.Info()&types.IsBoolean != 0:
			return "Bool"
		case tt.Info()&types.IsInteger != 0:
			return "Int"
		case tt.Info()&types.IsFloat != 0:
			return "F"
		case tt.Info()&types.IsString != 0:
			return "Str"
		case tt.Kind() == types.UnsafePointer:
			return "Ptr"
		case tt.Kind() == types.UntypedNil:
			return "Ptr"
		}
	case *types.Struct:
		name := "T_anon_" + sanitize(tt.String())
		if len(name) > 80 {
			name = fmt.Sprintf("T_anon_%d", hashStr(tt.String()))
		}
		c.declStruct(name, tt)
		return name
	case *types.Pointer:
		return "Ptr"
	case *types.Slice:
		return "Slice"
	case *types.Array:
		return "(Array Int " + c.sortOf(tt.Elem()) + ")"
	case *types.Interface:
		return "Iface"
	case *types.Signature:
		return "Int"
	case *types.Map:
		return "Int"
	case *types.Chan:
		return "Int"
	case *types.Tuple:
		return "Tuple"
	}
	c.errs = append(c.errs, fmt.Sprintf("unsupported type %s", t))
	return "Int"
}

func hashStr(s string) uint32 {
	var h uint32 = 2166136261
	for i := 0; i < len(s); i++ {
		h ^= uint32(s[i])
		h *= 16777619
	}
	return h
}

func (c *Ctx) declStruct(name string, st *types.Struct) {
	if c.declared["struct:"+name] {
		return
	}
	c.declared["struct:"+name] = true
	var fs []string
	for i := 0; i < st.NumFields(); i++ {
		fs = append(fs, fmt.Sprintf("(%s_%s %s)", name, fieldName(st, i), c.sortOf(st.Field(i).Type())))
	}
	if len(fs) == 0 {
		c.sortDecls = append(c.sortDecls, fmt.Sprintf("(declare-datatypes ((%s 0)) (((mk_%s))))", name, name))
		return
	}
	c.sortDecls = append(c.sortDecls, fmt.Sprintf("(declare-datatypes ((%s 0)) (((mk_%s %s))))", name, name, strings.Join(fs, " ")))
}

func fieldName(st *types.Struct, i int) string {
	n := st.Field(i).Name()
	if n == "_" || n == "" {
		n = fmt.Sprintf("f%d", i)
	}
	return n
}

func structOf(t types.Type) *types.Struct {
	st, _ := t.Underlying().(*types.Struct)
	return st
}

// structSortName returns the datatype name for a struct type.
func (c *Ctx) structSortName(t types.Type) string { return c.sortOf(t) }

func (c *Ctx) fieldSel(t types.Type, i int, x string) string {
	st := structOf(t)
	return fmt.Sprintf("(%s_%s %s)", c.sortOf(t), fieldName(st, i), x)
}

// structUpdate returns x with field i replaced by v.
func (c *Ctx) structUpdate(t types.Type, i int, x, v string) string {
	st := structOf(t)
	name := c.sortOf(t)
	var args []string
	for k := 0; k < st.NumFields(); k++ {
		if k == i {
			args = append(args, v)
		} else {
			args = append(args, fmt.Sprintf("(%s_%s %s)", name, fieldName(st, k), x))
		}
	}
	return fmt.Sprintf("(mk_%s %s)", name, strings.Join(args, " "))
}

// heapKey names the heap array holding elements of sort s.
func heapKey(sortS string) string {
	return "H_" + sanitize(sortS)
}

func (c *Ctx) heapSortOf(key string) string {
	if s, ok := c.heapSorts[key]; ok {
		return s
	}
	return c.heapSort(key)
}

func (c *Ctx) heapSort(elemSort string) string {
	return "(Array Int (Array Int " + baseSort(elemSort) + "))"
}

// zero value of a type as SMT term.
func (c *Ctx) zero(t types.Type) string {
	switch tt := t.Underlying().(type) {
	case *types.Basic:
		switch {
		case tt.Info()&types.IsBoolean != 0:
			return "false"
		case tt.Info()&types.IsInteger != 0:
			return "0"
		case tt.Info()&types.IsFloat != 0:
			return c.floatLit(0)
		case tt.Info()&types.IsString != 0:
			return c.strLit("")
		}
		return "(mkptr 0 0)"
	case *types.Struct:
		name := c.sortOf(t)
		if tt.NumFields() == 0 {
			return "mk_" + name
		}
		var args []string
		for i := 0; i < tt.NumFields(); i++ {
			args = append(args, c.zero(tt.Field(i).Type()))
		}
		return fmt.Sprintf("(mk_%s %s)", name, strings.Join(args, " "))
	case *types.Pointer:
		return "(mkptr 0 0)"
	case *types.Slice:
		return "(mkslice 0 0 0 0)"
	case *types.Interface:
		return "(mkiface 0 0)"
	case *types.Array:
		return fmt.Sprintf("((as const %s) %s)", c.sortOf(t), c.zero(tt.Elem()))
	case *types.Signature, *types.Map, *types.Chan:
		return "0"
	}
	return "0"
}

func (c *Ctx) strLit(s string) string {
	if n, ok := c.strLits[s]; ok {
		return n
	}
	n := fmt.Sprintf("str_%d", len(c.strLits))
	c.strLits[s] = n
	c.decl(fmt.Sprintf("(declare-fun %s () Str) ; %q", n, truncStr(s, 40)))
	c.decl(fmt.Sprintf("(assert (= (strlen %s) %d))", n, len(s)))
	if len(s) <= 64 {
		// bytes of short literals (needed where code converts them to []byte)
		c.declOnce("strat", "(declare-fun strat (Str Int) Int)\n(assert (forall ((s Str) (i Int)) (! (and (>= (strat s i) 0) (<= (strat s i) 255)) :pattern ((strat s i)))))")
		for i := 0; i < len(s); i++ {
			c.decl(fmt.Sprintf("(assert (= (strat %s %d) %d)) ;@@STRAT@@", n, i, s[i]))
		}
	}
	return n
}

func truncStr(s string, n int) string {
	s = strings.ReplaceAll(s, "\n", " ")
	if len(s) > n {
		return s[:n]
	}
	return s
}

// strDistinct emits the distinctness of all string literals (call before
// dumping queries).
func (c *Ctx) strDistinct() string {
	if len(c.strLits) < 2 {
		return ""
	}
	var ns []string
	for _, n := range c.strLits {
		ns = append(ns, n)
	}
	sort.Strings(ns)
	return "(assert (distinct " + strings.Join(ns, " ") + "))"
}

// ---------- floats ----------

func (c *Ctx) floatLit(v float64) string {
	if c.mode == ModeXReal {
		switch {
		case math.IsInf(v, 1):
			return "xpinf"
		case math.IsInf(v, -1):
			return "xninf"
		case math.IsNaN(v):
			return "xnan"
		}
		return "(xfin " + realLit(v) + ")"
	}
	switch c.mode {
	case ModeFP:
		if math.IsInf(v, 1) {
			return "(_ +oo 11 53)"
		}
		if math.IsInf(v, -1) {
			return "(_ -oo 11 53)"
		}
		if math.IsNaN(v) {
			return "(_ NaN 11 53)"
		}
		if v == 0 {
			if math.Signbit(v) {
				return "(_ -zero 11 53)"
			}
			return "(_ +zero 11 53)"
		}
		bits := math.Float64bits(v)
		return fmt.Sprintf("(fp #b%01b #b%011b #b%052b)", bits>>63, (bits>>52)&0x7ff, bits&((1<<52)-1))
	case ModeUFloat:
		// literals are distinct uninterpreted constants; their bit patterns are only
		// asserted in queries that use Float64bits/Float64frombits (see queryVariant)
		bits := math.Float64bits(v)
		n := fmt.Sprintf("flc_%016x", bits)
		if c.ufloatLits == nil {
			c.ufloatLits = map[string]uint64{}
		}
		if _, ok := c.ufloatLits[n]; !ok {
			c.ufloatLits[n] = bits
			c.decl(fmt.Sprintf("(declare-fun %s () F)", n))
		}
		return n
	}
	if math.IsInf(v, 0) || math.IsNaN(v) {
		// real mode has no infinities: uninterpreted symbolic constants
		if math.IsInf(v, 1) {
			c.declOnce("posinf", "(declare-fun posinf () Real)")
			return "posinf"
		}
		if math.IsInf(v, -1) {
			c.declOnce("neginf", "(declare-fun neginf () Real)")
			return "neginf"
		}
		c.declOnce("nanreal", "(declare-fun nanreal () Real)")
		return "nanreal"
	}
	return realLit(v)
}

func realLit(v float64) string {
	if v == math.Trunc(v) && math.Abs(v) < 1e15 {
		if v < 0 {
			return fmt.Sprintf("(- %s.0)", strconv.FormatFloat(-v, 'f', 0, 64))
		}
		return strconv.FormatFloat(v, 'f', 0, 64) + ".0"
	}
	// exact rational of the double
	r := new(big.Rat)
	r.SetFloat64(v)
	neg := r.Sign() < 0
	if neg {
		r.Neg(r)
	}
	s := fmt.Sprintf("(/ %s.0 %s.0)", r.Num().String(), r.Denom().String())
	if neg {
		s = "(- " + s + ")"
	}
	return s
}

// decimal literal from spec text, exact.
func (c *Ctx) floatLitText(txt string) string {
	// Literals denote IEEE doubles (as in Go and JavaScript source): the decimal text is
	// rounded to float64 first and that double's exact value is used.
	v, _ := strconv.ParseFloat(txt, 64)
	return c.floatLit(v)
}

func (c *Ctx) fbin(op string, a, b string) string {
	if c.mode == ModeXReal {
		m := map[string]string{"+": "xadd", "-": "xsub", "*": "xmul", "/": "xdiv"}
		return "(" + m[op] + " " + a + " " + b + ")"
	}
	switch c.mode {
	case ModeFP:
		switch op {
		case "+":
			return "(fp.add RNE " + a + " " + b + ")"
		case "-":
			return "(fp.sub RNE " + a + " " + b + ")"
		case "*":
			return "(fp.mul RNE " + a + " " + b + ")"
		case "/":
			return "(fp.div RNE " + a + " " + b + ")"
		}
	case ModeReal:
		switch op {
		case "+", "-", "*":
			return "(" + op + " " + a + " " + b + ")"
		case "/":
			return "(/ " + a + " " + b + ")"
		}
	case ModeUFloat:
		c.declOnce("ufarith", "(declare-fun fadd (F F) F)(declare-fun fsub (F F) F)(declare-fun fmul (F F) F)(declare-fun fdiv (F F) F)")
		m := map[string]string{"+": "fadd", "-": "fsub", "*": "fmul", "/": "fdiv"}
		return "(" + m[op] + " " + a + " " + b + ")"
	}
	panic("fbin " + op)
}

func (c *Ctx) fcmp(op string, a, b string) string {
	if c.mode == ModeXReal {
		switch op {
		case "==":
			return "(xeq " + a + " " + b + ")"
		case "!=":
			return "(not (xeq " + a + " " + b + "))"
		case "<":
			return "(xlt " + a + " " + b + ")"
		case "<=":
			return "(xle " + a + " " + b + ")"
		case ">":
			return "(xlt " + b + " " + a + ")"
		case ">=":
			return "(xle " + b + " " + a + ")"
		}
	}
	switch c.mode {
	case ModeFP:
		switch op {
		case "==":
			return "(fp.eq " + a + " " + b + ")"
		case "!=":
			return "(not (fp.eq " + a + " " + b + "))"
		case "<":
			return "(fp.lt " + a + " " + b + ")"
		case "<=":
			return "(fp.leq " + a + " " + b + ")"
		case ">":
			return "(fp.gt " + a + " " + b + ")"
		case ">=":
			return "(fp.geq " + a + " " + b + ")"
		}
	case ModeReal:
		switch op {
		case "==":
			return "(= " + a + " " + b + ")"
		case "!=":
			return "(not (= " + a + " " + b + "))"
		default:
			return "(" + op + " " + a + " " + b + ")"
		}
	case ModeUFloat:
		c.declOnce("ufcmp", "(declare-fun feq (F F) Bool)(declare-fun flt (F F) Bool)(declare-fun fle (F F) Bool)(assert (forall ((x F) (y F)) (! (=> (= x y) (= (feq x y) (feq x x))) :pattern ((feq x y)))))")
		switch op {
		case "==":
			return "(feq " + a + " " + b + ")"
		case "!=":
			return "(not (feq " + a + " " + b + "))"
		case "<":
			return "(flt " + a + " " + b + ")"
		case "<=":
			return "(fle " + a + " " + b + ")"
		case ">":
			return "(flt " + b + " " + a + ")"
		case ">=":
			return "(fle " + b + " " + a + ")"
		}
	}
	panic("fcmp " + op)
}

func (c *Ctx) fneg(a string) string {
	if c.mode == ModeXReal {
		return "(xneg " + a + ")"
	}
	switch c.mode {
	case ModeFP:
		return "(fp.neg " + a + ")"
	case ModeReal:
		return "(- " + a + ")"
	}
	c.declOnce("ufneg", "(declare-fun fneg (F) F)")
	return "(fneg " + a + ")"
}

// goMin / goMax per the Go documentation of math.Min / math.Max.
func (c *Ctx) goMinMax(isMin bool, a, b string) string {
	switch c.mode {
	case ModeFP:
		c.declOnce("gominmax", strings.Join([]string{
			"(define-fun goMin ((x F) (y F)) F (ite (or (and (fp.isInfinite x) (fp.isNegative x)) (and (fp.isInfinite y) (fp.isNegative y))) (_ -oo 11 53) (ite (or (fp.isNaN x) (fp.isNaN y)) (_ NaN 11 53) (ite (and (fp.isZero x) (fp.isZero y)) (ite (fp.isNegative x) x y) (ite (fp.lt x y) x y)))))",
			"(define-fun goMax ((x F) (y F)) F (ite (or (and (fp.isInfinite x) (fp.isPositive x)) (and (fp.isInfinite y) (fp.isPositive y))) (_ +oo 11 53) (ite (or (fp.isNaN x) (fp.isNaN y)) (_ NaN 11 53) (ite (and (fp.isZero x) (fp.isZero y)) (ite (fp.isNegative x) y x) (ite (fp.gt x y) x y)))))",
		}, "\n"))
	case ModeReal:
		c.declOnce("gominmax", "(define-fun goMin ((x F) (y F)) F (ite (< x y) x y))\n(define-fun goMax ((x F) (y F)) F (ite (> x y) x y))")
	case ModeUFloat:
		c.declOnce("gominmax", "(declare-fun goMin (F F) F)\n(declare-fun goMax (F F) F)")
	case ModeXReal:
		c.declOnce("gominmax", "(define-fun goMin ((x F) (y F)) F (ite (or ((_ is xninf) x) ((_ is xninf) y)) xninf (ite (or ((_ is xnan) x) ((_ is xnan) y)) xnan (ite (xlt x y) x y))))\n(define-fun goMax ((x F) (y F)) F (ite (or ((_ is xpinf) x) ((_ is xpinf) y)) xpinf (ite (or ((_ is xnan) x) ((_ is xnan) y)) xnan (ite (xlt y x) x y))))")
	}
	if isMin {
		return "(goMin " + a + " " + b + ")"
	}
	return "(goMax " + a + " " + b + ")"
}

// ufun declares (once) and applies an uninterpreted function over F.
func (c *Ctx) ufun(name string, ret string, argSorts []string, args ...string) string {
	c.declOnce("uf:"+name, fmt.Sprintf("(declare-fun %s (%s) %s)", name, strings.Join(argSorts, " "), ret))
	if len(args) == 0 {
		return name
	}
	return "(" + name + " " + strings.Join(args, " ") + ")"
}

// ---------- type tags ----------

func (c *Ctx) typeTag(t types.Type) string {
	key := types.TypeString(t, nil)
	if id, ok := c.tags[key]; ok {
		return strconv.Itoa(id)
	}
	id := len(c.tags) + 1
	c.tags[key] = id
	c.tagTypes = append(c.tagTypes, t)
	return strconv.Itoa(id)
}

func (c *Ctx) box(t types.Type, x string) string {
	s := c.sortOf(t)
	k := sanitize(s)
	c.declOnce("box:"+k, fmt.Sprintf("(declare-fun box_%s (%s) Int)\n(declare-fun unbox_%s (Int) %s)", k, s, k, s))
	if x != "" {
		// ground instance of unbox(box(x)) = x
		inst := fmt.Sprintf("(= (unbox_%s (box_%s %s)) %s)", k, k, x, x)
		if !c.declared["boxinst:"+inst] && !strings.Contains(x, "q_") && !strings.Contains(x, "a_") {
			c.declared["boxinst:"+inst] = true
			c.lateBox = append(c.lateBox, inst)
			c.cmds = append(c.cmds, "(assert "+inst+")")
		} else if strings.Contains(x, "q_") || strings.Contains(x, "a_") {
			c.declOnce("boxax:"+k, fmt.Sprintf("(assert (forall ((x %s)) (! (= (unbox_%s (box_%s x)) x) :pattern ((box_%s x)))))", s, k, k, k))
		}
	}
	return fmt.Sprintf("(box_%s %s)", k, x)
}

func (c *Ctx) unbox(t types.Type, x string) string {
	s := c.sortOf(t)
	k := sanitize(s)
	c.box(t, "") // ensure declared (result discarded)
	return fmt.Sprintf("(unbox_%s %s)", k, x)
}

func and(xs ...string) string {
	var ys []string
	for _, x := range xs {
		if x == "true" || x == "" {
			continue
		}
		if x == "false" {
			return "false"
		}
		ys = append(ys, x)
	}
	switch len(ys) {
	case 0:
		return "true"
	case 1:
		return ys[0]
	}
	return "(and " + strings.Join(ys, " ") + ")"
}

func or(xs ...string) string {
	var ys []string
	for _, x := range xs {
		if x == "false" || x == "" {
			continue
		}
		if x == "true" {
			return "true"
		}
		ys = append(ys, x)
	}
	switch len(ys) {
	case 0:
		return "false"
	case 1:
		return ys[0]
	}
	return "(or " + strings.Join(ys, " ") + ")"
}

func not(x string) string {
	if x == "true" {
		return "false"
	}
	if x == "false" {
		return "true"
	}
	return "(not " + x + ")"
}

func implies(a, b string) string {
	if a == "true" {
		return b
	}
	if b == "true" {
		return "true"
	}
	return "(=> " + a + " " + b + ")"
}

func ite(c, a, b string) string {
	if a == b {
		return a
	}
	if c == "true" {
		return a
	}
	if c == "false" {
		return b
	}
	return "(ite " + c + " " + a + " " + b + ")"
}

func eq(a, b string) string { return "(= " + a + " " + b + ")" }

func intLit(v int64) string {
	if v < 0 {
		return fmt.Sprintf("(- %d)", -v)
	}
	return strconv.FormatInt(v, 10)
}

// query assembles the SMT-LIB text for an obligation.
func (o *Obligation) query(extra []string, timeoutMs int) string {
	return o.queryVariant(extra, 0)
}

// queryVariant: variant 0 encodes recursive spec functions with fuel axioms,
// variant 1 as define-fun-rec.
func (o *Obligation) queryVariant(extra []string, variant int) string {
	c := o.ctx
	var b strings.Builder
	b.WriteString("(set-option :produce-models true)\n")
	b.WriteString("(set-logic ALL)\n")
	for i, d := range c.decls {
		if strings.HasPrefix(d, "@@REC:") {
			var k int
			fmt.Sscanf(d, "@@REC:%d@@", &k)
			d = c.recForms[k][variant]
		}
		if d == "@@FBITS@@" {
			// bit-pattern axioms of uninterpreted floats: only when the query uses them
			// (the bit-vector theory otherwise slows down purely structural goals)
			d = "@@FBITS-LATER@@"
		}
		if d == "@@IX@@" {
			// slice element addressing off+i: an uninterpreted symbol (robust quantifier
			// patterns) in the proof-oriented variant, a macro in the model-oriented one
			if variant == 0 {
				d = "(declare-fun ix (Int Int) Int)\n(assert (forall ((a Int) (b Int)) (! (= (ix a b) (+ a b)) :pattern ((ix a b)))))"
			} else {
				d = "(define-fun ix ((a Int) (b Int)) Int (+ a b))"
			}
		}
		b.WriteString(d)
		b.WriteString("\n")
		if i == c.preludeLen-1 {
			for _, sd := range c.sortDecls {
				b.WriteString(sd)
				b.WriteString("\n")
			}
		}
	}
	if d := c.strDistinct(); d != "" {
		b.WriteString(d + "\n")
	}
	b.WriteString("@@FLITS@@\n") // facts about float literal constants: after every declaration
	for _, cmd := range c.cmds[:o.prefix] {
		b.WriteString(cmd)
		b.WriteString("\n")
	}
	for _, ax := range c.lateAxioms {
		// facts about heap constants (valid Go invariants); placed after the declarations
		if heapDeclaredBefore(ax, c.cmds[:o.prefix], c.decls) {
			b.WriteString(ax)
			b.WriteString("\n")
		}
	}
	for _, e := range o.Extra {
		b.WriteString(e)
		b.WriteString("\n")
	}
	for _, e := range extra {
		b.WriteString(e)
		b.WriteString("\n")
	}
	if o.Vacuity {
		b.WriteString("(assert " + o.goal + ")\n")
	} else {
		b.WriteString("(assert (not " + o.goal + "))\n")
	}
	b.WriteString("(check-sat)\n(get-model)\n")
	q := b.String()
	if strings.Contains(q, ";@@STRAT@@") {
		// bytes of string literals: only when something in the query reads string bytes
		var keep []string
		uses := false
		lines := strings.Split(q, "\n")
		for _, ln := range lines {
			if !strings.HasSuffix(ln, ";@@STRAT@@") && strings.Contains(ln, "(strat ") && !strings.HasPrefix(ln, "(declare-fun strat ") && !strings.Contains(ln, ":pattern ((strat s i))") {
				uses = true
				break
			}
		}
		for _, ln := range lines {
			if strings.HasSuffix(ln, ";@@STRAT@@") && !uses {
				continue
			}
			keep = append(keep, ln)
		}
		q = strings.Join(keep, "\n")
	}
	if strings.Contains(q, "@@FBITS-LATER@@") {
		ax := ""
		body := strings.Replace(q, "(declare-fun fbits (F) (_ BitVec 64))", "", 1)
		body = strings.Replace(body, "(declare-fun fofbits ((_ BitVec 64)) F)", "", 1)
		if strings.Contains(body, "(fbits ") || strings.Contains(body, "(fofbits ") {
			ax = "(assert (forall ((x F)) (! (= (fofbits (fbits x)) x) :pattern ((fbits x)))))\n(assert (forall ((b (_ BitVec 64))) (! (= (fbits (fofbits b)) b) :pattern ((fofbits b)))))"
		}
		var names []string
		for n := range c.ufloatLits {
			names = append(names, n)
		}
		sort.Strings(names)
		var lits strings.Builder
		for _, n := range names {
			if !strings.Contains(q, "(declare-fun "+n+" () F)") {
				continue
			}
			if ax != "" {
				fmt.Fprintf(&lits, "\n(assert (= %s (fofbits #x%016x)))", n, c.ufloatLits[n])
			}
		}
		litAx := lits.String()
		var present []string
		for _, n := range names {
			if strings.Contains(q, "(declare-fun "+n+" () F)") {
				present = append(present, n)
			}
		}
		if len(present) >= 2 {
			litAx += "\n(assert (distinct " + strings.Join(present, " ") + "))"
		}
		q = strings.Replace(q, "@@FBITS-LATER@@", ax, 1)
		q = strings.Replace(q, "@@FLITS@@", litAx, 1)
	}
	return strings.Replace(q, "@@FLITS@@\n", "", 1)
}

// heapDeclaredBefore: the heap constant an axiom talks about is declared in
// the visible prefix.
func heapDeclaredBefore(ax string, cmds, decls []string) bool {
	i := strings.Index(ax, "(select (select ")
	if i < 0 {
		return true
	}
	rest := ax[i+len("(select (select "):]
	j := strings.IndexAny(rest, " )")
	name := rest[:j]
	needle := "(declare-fun " + name + " "
	for _, d := range decls {
		if strings.HasPrefix(d, needle) {
			return true
		}
	}
	for _, d := range cmds {
		if strings.HasPrefix(d, needle) {
			return true
		}
	}
	return false
}

type heapPrevInfo struct {
	prev     string
	preAlloc string
	reach    string
}
