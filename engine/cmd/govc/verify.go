package main

import (
	"fmt"
	"go/token"
	"go/types"
	"sort"
	"strings"

	"golang.org/x/tools/go/ssa"
)

// FuncResult is the VC of one function.
type FuncResult struct {
	Func    string
	Key     string
	Ctx     *Ctx
	Obls    []*Obligation
	Errs    []string
	Trusted string
}

func containsStr(xs []string, s string) bool {
	for _, x := range xs {
		if x == s {
			return true
		}
	}
	return false
}

// ifaceClausesFor collects interface-method contracts that fn must satisfy
// (behavioural subtyping): fn is a method whose receiver type implements the
// contract's interface.
func (P *Program) ifaceClausesFor(fn *ssa.Function) []*IfaceContract {
	if fn.Signature.Recv() == nil {
		return nil
	}
	var out []*IfaceContract
	rt := fn.Signature.Recv().Type()
	for _, ic := range P.Contracts.Ifaces {
		if ic.Method != fn.Name() {
			continue
		}
		p := P.TypesPkgs[ic.Pkg]
		if p == nil {
			continue
		}
		tn, _ := p.Scope().Lookup(ic.Iface).(*types.TypeName)
		if tn == nil {
			continue
		}
		it, ok := tn.Type().Underlying().(*types.Interface)
		if !ok {
			continue
		}
		if types.Implements(rt, it) {
			out = append(out, ic)
		}
	}
	return out
}

func (P *Program) verifyFunc(fn *ssa.Function, fc *FuncContract, mode Mode) *FuncResult {
	res := &FuncResult{Func: funcDisplay(fn), Key: funcKey(fn)}
	pkg := funcPkg(fn)
	c := newCtx(P, mode, pkg, res.Func)
	res.Ctx = c
	if fc.Trusted != "" {
		res.Trusted = fc.Trusted
		return res
	}
	defer func() {
		if r := recover(); r != nil {
			res.Errs = append(res.Errs, fmt.Sprintf("engine panic in %s: %v", res.Func, r))
			if debugPanics {
				panic(r)
			}
		}
	}()
	if isPkgInit(fn) {
		res.Errs = append(res.Errs, P.checkInitOnlyGlobals(fn, fc)...)
	}
	c.decl("(declare-fun alloc0 () Int)")
	c.decl("(assert (>= alloc0 1))")
	fr := c.newFrame(fn, fc, 0)
	fr.top = true
	fr.name = res.Func
	fr.props = fc.Props
	fr.noSafety = fc.NoSafety
	st0 := newEntryState()
	fr.entry = st0
	fr.curReach = "true"
	fr.curSt = st0
	var args []Val
	for _, p := range fn.Params {
		v := Val{T: c.declConst("p_"+sanitize(p.Name()), c.sortOf(p.Type())), Ty: p.Type()}
		args = append(args, v)
		fr.params[p.Name()] = v
		fr.vals[p] = v
		fr.assumeWF(v, st0)
	}
	for _, fv := range fn.FreeVars {
		v := Val{T: c.declConst("fv_"+sanitize(fv.Name()), c.sortOf(fv.Type())), Ty: fv.Type()}
		fr.vals[fv] = v
		fr.assumeWF(v, st0)
		if pt, ok := fv.Type().Underlying().(*types.Pointer); ok {
			_ = pt
			c.assume(fmt.Sprintf("(not (= (pobj %s) 0))", v.T))
		}
	}
	// captured variables are distinct allocations
	for i, a := range fn.FreeVars {
		for _, b := range fn.FreeVars[i+1:] {
			if _, ok := a.Type().Underlying().(*types.Pointer); !ok {
				continue
			}
			if _, ok := b.Type().Underlying().(*types.Pointer); !ok {
				continue
			}
			c.assume(fmt.Sprintf("(not (= (pobj %s) (pobj %s)))", fr.vals[a].T, fr.vals[b].T))
		}
	}
	env := fr.specEnv(st0, nil)
	for _, r := range fc.Requires {
		c.assume(env.trBool(r.Expr))
	}
	// receiver-level interface contracts: their requires may be assumed too
	ifcs := P.ifaceClausesFor(fn)
	selfEnv := func(e *SpecEnv) *SpecEnv {
		if len(fn.Params) > 0 && fn.Signature.Recv() != nil {
			recv := args[0]
			// self is the interface value holding the receiver
			ne := e.withVar("self", Val{T: fmt.Sprintf("(mkiface %s %s)", c.typeTag(fn.Params[0].Type()), c.box(fn.Params[0].Type(), recv.T)), Ty: types.NewInterfaceType(nil, nil)})
			return ne
		}
		return e
	}
	for _, ic := range ifcs {
		e2 := selfEnv(env)
		e2.pkg = P.TypesPkgs[ic.Pkg]
		for _, r := range ic.C.Requires {
			c.assume(e2.trBool(r.Expr))
		}
	}
	if len(fc.Panics) > 0 {
		var alts []string
		for _, p := range fc.Panics {
			alts = append(alts, env.trBool(p.Expr))
		}
		fr.panicOK = c.define("panic_ok", "Bool", or(alts...))
	}
	for _, m := range fc.Modifies {
		fr.modObjs = append(fr.modObjs, env.modItems(m)...)
	}
	for _, k := range c.optSortKeys(fc.Opts["noframe"]+","+fc.Opts["havoc"], pkg) {
		fr.modObjs = append(fr.modObjs, modItem{sortKey: k, all: true})
	}
	c.panicsWith, c.panicsWithSet = nil, len(fc.PanicsWith) > 0
	for _, te := range fc.PanicsWith {
		if t := c.resolveType(te, pkg); t != nil {
			c.panicsWith = append(c.panicsWith, c.typeTag(t))
		} else {
			c.errs = append(c.errs, fmt.Sprintf("%s: panics_with: unknown type %v", res.Func, te))
		}
	}
	c.trustPre = map[string]bool{}
	for _, pn := range strings.Split(fc.Opts["trustpre"], ",") {
		if pn = strings.TrimSpace(pn); pn != "" {
			c.trustPre[pn] = true
		}
	}
	// vacuity probe: the precondition must be satisfiable
	c.obls = append(c.obls, &Obligation{Name: res.Func + "/vacuity[requires]", Kind: "vacuity", Props: fc.Props, Text: "precondition and type invariants are satisfiable", Func: res.Func, prefix: len(c.cmds), goal: "true", ctx: c, Vacuity: true})

	fr.run(args, st0, "true")

	nret := len(fr.returns)
	for _, r := range fr.returns {
		fr.curReach = r.reach
		fr.curSt = r.st
		fr.cur = r.block
		fr.curInstr = -1
		suffix := ""
		if nret > 1 {
			suffix = fmt.Sprintf("@ret%d", r.ord)
		}
		post := &SpecEnv{c: c, fr: fr, vars: map[string]Val{}, st: r.st, old: st0, oldAlloc: "alloc0", pkg: pkg, results: r.results, resultNames: resultNames(fn.Signature), paramsAtEntry: true}
		for _, e := range fc.Defines {
			// the function's own result defines the abstraction
			fr.assumeR(post.trBool(e.Expr))
			c.assumed["definitional abstraction (determinism of "+res.Func+"): "+e.Text] = true
		}
		for _, e := range fc.Ensures {
			if e.Assumed {
				c.assumed["postcondition ["+e.Label+"] of "+res.Func+" is assumed, not proved (ensures_assumed): "+e.Text] = true
				continue
			}
			v := post.trBool(e.Expr)
			o := fr.oblige("ensures", e.Label+suffix, propsOr(e.Props, fc.Props), v, e.Text, r.pos)
			o.Using, o.Extra = c.splitUsing(post, e.Using)
			o.Expr = e.Expr
		}
		for _, ic := range ifcs {
			p2 := selfEnv(post)
			p2.pkg = P.TypesPkgs[ic.Pkg]
			p2.results = r.results
			for _, e := range ic.C.Ensures {
				v := p2.trBool(e.Expr)
				o := fr.oblige("ensures", "iface:"+ic.Iface+"."+ic.Method+":"+e.Label+suffix, propsOr(e.Props, propsOr(ic.C.Props, fc.Props)), v, e.Text, r.pos)
				o.Using, o.Extra = c.splitUsing(p2, e.Using)
			}
		}
		// frame
		var ks []string
		for k := range r.st.heaps {
			ks = append(ks, k)
		}
		sort.Strings(ks)
		noframe := map[string]bool{}
		for _, k := range c.optSortKeys(fc.Opts["noframe"]+","+fc.Opts["havoc"], pkg) {
			noframe[k] = true
			c.assumed["frame of sort "+k+" not claimed for "+res.Func+" (opt noframe/havoc)"] = true
		}
		for _, k := range ks {
			if noframe[k] || ((isPkgInit(fn) || isInitCallee(fn)) && !fc.ModSet) {
				// a package initialiser exists to write the package's variables: no frame is claimed
				continue
			}
			ft := fr.frameTerm(k, c.heap(r.st, k), c.heap(st0, k), "alloc0")
			if ft != "true" {
				mt := "modifies " + fc.ModText
				if !fc.ModSet {
					mt = "modifies nothing (default)"
				}
				fr.oblige("modifies", sanitize(k)+suffix, nil, ft, mt+": every other pre-existing object is unchanged", r.pos)
			}
		}
	}
	if nret == 0 && len(fr.unsupported) == 0 {
		// function never returns normally (always panics): fine if licensed
	}
	res.Obls = c.obls
	res.Errs = append(res.Errs, c.errs...)
	return res
}

var debugPanics = false

// verifyLemma generates the obligations of a lemma (direct or by induction).
func (P *Program) verifyLemma(lm *Lemma) *FuncResult {
	res := &FuncResult{Func: "lemma " + lm.Name, Key: lm.Pkg + "::lemma:" + lm.Name}
	pkg := P.TypesPkgs[lm.Pkg]
	c := newCtx(P, parseMode(lm.Mode), pkg, res.Func)
	res.Ctx = c
	if lm.Axiom {
		res.Trusted = "axiom: " + lm.Reason
		return res
	}
	c.decl("(declare-fun alloc0 () Int)")
	c.decl("(assert (>= alloc0 1))")
	st := newEntryState()
	vars := map[string]Val{}
	for _, p := range lm.Params {
		t := c.resolveType(p.T, pkg)
		if t == nil {
			res.Errs = append(res.Errs, fmt.Sprintf("lemma %s: unknown type %s", lm.Name, p.T))
			return res
		}
		v := Val{T: c.declConst("l_"+p.Name, c.sortOf(t)), Ty: t}
		vars[p.Name] = v
		if w := c.wfTerm(v.T, t, "alloc0", 0); w != "true" {
			c.assume(w)
		}
	}
	env := &SpecEnv{c: c, vars: vars, st: st, old: st, pkg: pkg}
	for _, r := range lm.Requires {
		c.assume(env.trBool(r.Expr))
	}
	if lm.Induct != "" {
		// strong induction hypothesis over the naturals below the induction variable
		ih := c.lemmaFormula(lm, lm.Induct, vars[lm.Induct].T)
		c.assume(ih)
	}
	lnames, lextra := c.splitUsing(env, lm.Using)
	for _, u := range lnames {
		c.lemmasUsed[u] = true
	}
	for i, e := range lm.Ensures {
		label := e.Label
		if label == "" {
			label = fmt.Sprintf("%d", i+1)
		}
		o := &Obligation{Name: res.Func + "/lemma[" + label + "]", Kind: "lemma", Props: lm.Props, Text: e.Text, Func: res.Func, prefix: len(c.cmds), goal: env.trBool(e.Expr), ctx: c, Using: lnames, Extra: lextra}
		c.obls = append(c.obls, o)
	}
	res.Obls = c.obls
	res.Errs = append(res.Errs, c.errs...)
	return res
}

// lemmaFormula: forall params (and heaps). requires => ensures. If indVar is
// given the formula is restricted to 0 <= indVar' < bound (induction hypothesis).
func (c *Ctx) lemmaFormula(lm *Lemma, indVar, bound string) string {
	pkg := c.prog.TypesPkgs[lm.Pkg]
	vars := map[string]Val{}
	var binders []string
	for _, p := range lm.Params {
		t := c.resolveType(p.T, pkg)
		if t == nil {
			return "true"
		}
		vars[p.Name] = Val{T: "a_" + p.Name, Ty: t}
		binders = append(binders, fmt.Sprintf("(a_%s %s)", p.Name, c.sortOf(t)))
	}
	// lemmas are stated over the entry heaps (heaps are not quantified: lemmas about
	// heap-reading spec functions hold for the heap they are instantiated in)
	env := &SpecEnv{c: c, vars: vars, st: newEntryState(), pkg: pkg}
	var req []string
	for _, p := range lm.Params {
		t := vars[p.Name].Ty
		if w := c.wfTerm("a_"+p.Name, t, "alloc0", 0); w != "true" {
			req = append(req, w)
		}
	}
	for _, r := range lm.Requires {
		req = append(req, env.trBool(r.Expr))
	}
	if indVar != "" {
		req = append(req, fmt.Sprintf("(<= 0 a_%s)", indVar), fmt.Sprintf("(< a_%s %s)", indVar, bound))
	}
	var ens []string
	for _, e := range lm.Ensures {
		ens = append(ens, env.trBool(e.Expr))
	}
	if len(binders) == 0 {
		return implies(and(req...), and(ens...))
	}
	return fmt.Sprintf("(forall (%s) %s)", strings.Join(binders, " "), implies(and(req...), and(ens...)))
}

// lemmaAxioms returns the assert commands for lemmas named in `using`.
func (c *Ctx) lemmaAxioms(names []string, heapSubst func(string) string) []string {
	var out []string
	for _, n := range names {
		var lm *Lemma
		for k, l := range c.prog.Contracts.Lemmas {
			if strings.HasSuffix(k, "::"+n) {
				lm = l
			}
		}
		if lm == nil {
			c.errs = append(c.errs, "unknown lemma "+n)
			continue
		}
		f := c.lemmaFormula(lm, "", "")
		if heapSubst != nil {
			f = heapSubst(f)
		}
		out = append(out, "(assert "+f+")")
	}
	return out
}

// splitUsing separates `using` items into plain lemma names (added as
// quantified axioms) and instantiations L(args), translated in env.
func (c *Ctx) splitUsing(env *SpecEnv, items []string) (names []string, extra []string) {
	for _, it := range items {
		if !strings.Contains(it, "(") {
			names = append(names, it)
			continue
		}
		e, err := parseExpr(it)
		if err != nil {
			c.errs = append(c.errs, "using: "+err.Error())
			continue
		}
		call, ok := e.(*ECall)
		if !ok {
			c.errs = append(c.errs, "using: expected L(args): "+it)
			continue
		}
		id, _ := call.Fun.(*EIdent)
		if id != nil && id.Name == "mention" {
			// seed the solver's term database with a term (instantiation hint only)
			for _, a := range call.Args {
				nerr := len(c.errs)
				v := env.tr(a)
				if len(c.errs) > nerr {
					// names of the hint are not in scope at this site: the hint does not apply
					c.errs = c.errs[:nerr]
					continue
				}
				if v.Ty == nil {
					continue
				}
				n := c.fresh("mention")
				extra = append(extra, fmt.Sprintf("(declare-fun %s () %s)", n, c.sortOf(v.Ty)), fmt.Sprintf("(assert (= %s %s))", n, v.T))
				// a mentioned application of an opaque spec function is also unfolded once by the
				// translator itself: index arithmetic of the body is then folded with the actual
				// arguments ((j-1)+1 becomes j), which the solver's instantiation of the
				// definitional axiom would leave to arithmetic reasoning under the quantifier
				if ac, ok := a.(*ECall); ok {
					if aid, ok := ac.Fun.(*EIdent); ok {
						if sf := c.findSpec(aid.Name, env.pkg); sf != nil && sf.Opaque && sf.Body != nil && sf.Decreases == nil && len(sf.Params) == len(ac.Args) {
							nerr2 := len(c.errs)
							ne := env
							okArgs := true
							for i, p := range sf.Params {
								av := env.tr(ac.Args[i])
								if av.Ty == nil {
									okArgs = false
									break
								}
								ne = ne.withVar(p.Name, av)
							}
							if okArgs {
								body := ne.tr(sf.Body)
								// only quantifier-free bodies: an unfolded quantified body is one more
								// quantifier for the solver to instantiate and made proofs slower
								if len(c.errs) == nerr2 && body.Ty != nil && !strings.Contains(body.T, "(forall ") && !strings.Contains(body.T, "(exists ") {
									extra = append(extra, fmt.Sprintf("(assert (= %s %s))", v.T, body.T))
								}
							}
							if len(c.errs) > nerr2 {
								c.errs = c.errs[:nerr2]
							}
						}
					}
				}
			}
			continue
		}
		var lm *Lemma
		if id != nil {
			for k, l := range c.prog.Contracts.Lemmas {
				if strings.HasSuffix(k, "::"+id.Name) {
					lm = l
				}
			}
		}
		if lm == nil || len(call.Args) != len(lm.Params) {
			c.errs = append(c.errs, "using: unknown lemma or arity: "+it)
			continue
		}
		sub := &SpecEnv{c: c, fr: env.fr, vars: map[string]Val{}, st: env.st, old: env.old, oldAlloc: env.oldAlloc, pkg: c.prog.TypesPkgs[lm.Pkg], loop: env.loop}
		nerr := len(c.errs)
		for i, p := range lm.Params {
			sub.vars[p.Name] = env.tr(call.Args[i])
		}
		if len(c.errs) > nerr {
			// the instance mentions names that are not in scope at this site: it does not apply here
			c.errs = c.errs[:nerr]
			continue
		}
		var req, ens []string
		for _, r := range lm.Requires {
			req = append(req, sub.trBool(r.Expr))
		}
		for _, r := range lm.Ensures {
			ens = append(ens, sub.trBool(r.Expr))
		}
		extra = append(extra, "(assert "+implies(and(req...), and(ens...))+")")
		c.lemmasUsed[lm.Name] = true
	}
	return
}

// checkInitOnlyGlobals: the package-level variables a package initialiser's contract speaks about
// are written nowhere else in the package. Any other function may only load such a variable and use
// the loaded map for lookups, range loops and len; a store to the variable, a map update or delete
// through it, or any other use (the value escapes) is reported. This is what entitles the check of
// the initialiser to stand for the state every later call sees, and to skip the init functions.
func (P *Program) checkInitOnlyGlobals(initFn *ssa.Function, fc *FuncContract) []string {
	var errs []string
	pkg := initFn.Pkg
	if pkg == nil {
		return nil
	}
	names := map[string]bool{}
	var walk func(x Expr)
	walk = func(x Expr) {
		switch x := x.(type) {
		case *EIdent:
			names[x.Name] = true
		case *EUnary:
			walk(x.X)
		case *EBinary:
			walk(x.X)
			walk(x.Y)
		case *ECond:
			walk(x.C)
			walk(x.A)
			walk(x.B)
		case *EField:
			walk(x.X)
		case *EIndex:
			walk(x.X)
			walk(x.I)
		case *ECall:
			for _, a := range x.Args {
				walk(a)
			}
		case *EQuant:
			walk(x.Body)
		case *ELet:
			walk(x.V)
			walk(x.B)
		}
	}
	for _, e := range fc.Ensures {
		walk(e.Expr)
	}
	globals := map[*ssa.Global]bool{}
	for n := range names {
		if g, ok := pkg.Members[n].(*ssa.Global); ok {
			globals[g] = true
		}
	}
	if len(globals) == 0 {
		return nil
	}
	inPkg := func(fn *ssa.Function) bool {
		for f := fn; f != nil; f = f.Parent() {
			if f.Pkg == pkg {
				return true
			}
		}
		return false
	}
	for fn := range P.allFuncs {
		if fn == initFn || !inPkg(fn) {
			continue
		}
		for _, b := range fn.Blocks {
			for _, ins := range b.Instrs {
				var ops [16]*ssa.Value
				for _, op := range ins.Operands(ops[:0]) {
					g, ok := (*op).(*ssa.Global)
					if !ok || !globals[g] {
						continue
					}
					ld, isLoad := ins.(*ssa.UnOp)
					if !isLoad || ld.Op != token.MUL {
						errs = append(errs, fmt.Sprintf("%s: variable %s, which the package initialiser's contract describes, is written or its address is used in %s", funcDisplay(initFn), g.Name(), funcDisplay(fn)))
						continue
					}
					for _, r := range *ld.Referrers() {
						switch r := r.(type) {
						case *ssa.Lookup, *ssa.Range, *ssa.DebugRef:
						case *ssa.Call:
							if bi, ok := r.Call.Value.(*ssa.Builtin); ok && bi.Name() == "len" {
								continue
							}
							errs = append(errs, fmt.Sprintf("%s: variable %s escapes or is modified in %s (%s)", funcDisplay(initFn), g.Name(), funcDisplay(fn), r.String()))
						default:
							errs = append(errs, fmt.Sprintf("%s: variable %s escapes or is modified in %s (%s)", funcDisplay(initFn), g.Name(), funcDisplay(fn), r.String()))
						}
					}
				}
			}
		}
	}
	sort.Strings(errs)
	return errs
}
