package main

import (
	"encoding/json"
	"fmt"
	"os"
	"path/filepath"
	"regexp"
	"strings"
)

// ---------- known findings ----------

type knownFinding struct {
	Property   string `json:"property"`
	Obligation string `json:"obligation"` // exact name or regexp (anchored)
	What       string `json:"what"`
	Witness    string `json:"witness,omitempty"`     // Go test file (func TestReplayVerif) that fails while the defect is present
	WitnessPkg string `json:"witness_pkg,omitempty"` // import path of the package the test is injected into
	checked    bool
	stillFails bool
	output     string
}

// witnessStillFails replays the stored witness against the current tree.
func (f *knownFinding) witnessStillFails(repo string, P *Program) bool {
	if f.checked {
		return f.stillFails
	}
	f.checked = true
	if f.Witness == "" {
		f.stillFails = true // no stored input: matched by obligation name only
		return true
	}
	src, err := os.ReadFile(f.Witness)
	if err != nil {
		f.output = err.Error()
		return false
	}
	dir := P.PkgDirs[f.WitnessPkg]
	if dir == "" {
		dir = repo
	}
	out, failed := runWitnessTest(repo, f.WitnessPkg, filepath.Join(dir, "zz_replay_verif_test.go"), string(src))
	f.output = out
	f.stillFails = failed
	return failed
}

type fixedEntry struct {
	Property string `json:"property"`
	Commit   string `json:"commit"`
	What     string `json:"what"`
}

type knownFile struct {
	Findings []knownFinding `json:"findings"`
	Fixed    []string       `json:"fixed"`
}

func loadKnownFindings(path string) *knownFile {
	kf := &knownFile{}
	b, err := os.ReadFile(path)
	if err != nil {
		return kf
	}
	if err := json.Unmarshal(b, kf); err != nil {
		fmt.Fprintln(os.Stderr, "warning: cannot parse known findings:", err)
	}
	return kf
}

func (kf *knownFile) match(prop, obl string) *knownFinding {
	for i := range kf.Findings {
		f := &kf.Findings[i]
		if f.Property != prop {
			continue
		}
		if f.Obligation == obl {
			return f
		}
		if re, err := regexp.Compile("^" + f.Obligation + "$"); err == nil && re.MatchString(obl) {
			return f
		}
	}
	return nil
}

// ---------- replay files ----------

type replayFile struct {
	Property   string            `json:"property"`
	Obligation string            `json:"obligation"`
	Kind       string            `json:"kind"`
	Func       string            `json:"func"`
	Text       string            `json:"text"`
	Pos        string            `json:"pos"`
	Status     string            `json:"status"`
	Solver     string            `json:"solver"`
	SolverOut  string            `json:"solver_output"`
	Model      string            `json:"model,omitempty"`
	AllSolvers map[string]string `json:"all_solvers,omitempty"`
	Witness    *witness          `json:"witness,omitempty"`
	Confirmed  bool              `json:"confirmed_on_real_code"`
	Note       string            `json:"note"`
	QueryFile  string            `json:"query_file,omitempty"`
}

type witness struct {
	TestFile   string `json:"test_file"`
	TestSource string `json:"test_source"`
	Pkg        string `json:"pkg"`
	Output     string `json:"output"`
	Confirmed  bool   `json:"confirmed"`
}

func writeReplay(o *checkOpts, P *Program, rp *oblReport) string {
	dir := filepath.Join(o.verif, "replays", o.prop)
	os.MkdirAll(dir, 0o755)
	name := sanitize(rp.Name)
	if len(name) > 150 {
		name = name[:150]
	}
	path := filepath.Join(dir, name+".json")
	rf := &replayFile{Property: o.prop, Obligation: rp.Name, Kind: rp.Kind, Func: rp.Func, Text: rp.Text, Pos: rp.Pos, Status: rp.Status, Solver: rp.Solver, SolverOut: rp.res.Output, Model: rp.res.Model, AllSolvers: rp.All}
	qf := filepath.Join(dir, name+".smt2")
	var extra []string
	if len(rp.obl.Using) > 0 {
		extra = rp.obl.ctx.lemmaAxioms(rp.obl.Using, nil)
	}
	os.WriteFile(qf, []byte(rp.obl.queryVariant(extra, 1)), 0o644)
	rf.QueryFile = qf
	if !o.noReplay {
		if w := buildWitness(o, P, rp); w != nil {
			rf.Witness = w
			rf.Confirmed = w.Confirmed
		}
	}
	if !rf.Confirmed {
		rf.Note = "no-failing-input-found: the obligation is not discharged on this tree; no concrete input reproducing a failure on the real code was constructed"
	}
	b, _ := json.MarshalIndent(rf, "", " ")
	os.WriteFile(path, b, 0o644)
	return path
}

func replayConfirmed(path string) bool {
	b, err := os.ReadFile(path)
	if err != nil {
		return false
	}
	var rf replayFile
	if json.Unmarshal(b, &rf) != nil {
		return false
	}
	return rf.Confirmed
}

func cmdReplay(argv []string) int {
	if len(argv) < 1 {
		fmt.Fprintln(os.Stderr, "usage: govc replay <file>")
		return 2
	}
	b, err := os.ReadFile(argv[0])
	if err != nil {
		fmt.Fprintln(os.Stderr, err)
		return 2
	}
	var rf replayFile
	if err := json.Unmarshal(b, &rf); err != nil {
		fmt.Fprintln(os.Stderr, err)
		return 2
	}
	fmt.Printf("obligation: %s\nstatus: %s\n%s\n", rf.Obligation, rf.Status, rf.Text)
	if rf.Witness == nil {
		fmt.Println("no witness test stored (no-failing-input-found); solver output:")
		fmt.Println(rf.SolverOut)
		return 1
	}
	out, failed := runWitnessTest("/repo", rf.Witness.Pkg, rf.Witness.TestFile, rf.Witness.TestSource)
	fmt.Println(out)
	if failed {
		fmt.Println("REPLAY: the witness still fails on the current tree")
		return 1
	}
	fmt.Println("REPLAY: the witness no longer fails")
	return 0
}

var _ = strings.TrimSpace
