package main

import (
	"bytes"
	"context"
	"fmt"
	"os"
	"os/exec"
	"path/filepath"
	"strings"
	"sync"
	"time"
)

// SolverResult is the outcome of one obligation query.
type SolverResult struct {
	Status  string // "unsat", "sat", "unknown", "timeout", "error"
	Solver  string
	Seconds float64
	Model   string            // raw (get-model) output when sat
	Output  string            // raw solver output (trimmed)
	All     map[string]string // solver -> status (thorough mode)
}

type solverSpec struct {
	name string
	argv func(file string, timeoutS int) []string
}

// wallFactor: wall-clock backstop as a multiple of the CPU-time limit per solver process.
const wallFactor = 8

var solverSpecs = []solverSpec{
	{"z3-new", func(f string, t int) []string { return []string{"z3-new", fmt.Sprintf("-T:%d", t), "-smt2", f} }},
	{"z3", func(f string, t int) []string { return []string{"/usr/bin/z3", fmt.Sprintf("-T:%d", t), "-smt2", f} }},
	{"cvc5", func(f string, t int) []string {
		return []string{"cvc5", fmt.Sprintf("--tlimit=%d", t*1000), "--lang=smt2", "--produce-models", f}
	}},
}

var workDir string
var workOnce sync.Once

func scratchDir() string {
	workOnce.Do(func() {
		base := os.Getenv("GOVC_SCRATCH")
		if base == "" {
			base = "/var/tmp"
		}
		d, err := os.MkdirTemp(base, "govc-")
		if err != nil {
			panic(err)
		}
		workDir = d
	})
	return workDir
}

func cleanupScratch() {
	if workDir != "" {
		os.RemoveAll(workDir)
	}
}

func firstWord(s string) string {
	s = strings.TrimSpace(s)
	if i := strings.IndexAny(s, " \n\t\r"); i >= 0 {
		return s[:i]
	}
	return s
}

func parseStatus(out string) string {
	for _, line := range strings.Split(out, "\n") {
		w := strings.TrimSpace(line)
		switch w {
		case "unsat", "sat", "unknown":
			return w
		case "timeout":
			return "timeout"
		}
		if strings.HasPrefix(w, "(error") {
			return "error"
		}
		if w != "" && !strings.HasPrefix(w, ";") && !strings.HasPrefix(w, "(") && !strings.HasPrefix(w, "WARNING") {
			// cvc5 prints e.g. "cvc5 interrupted by timeout."
			if strings.Contains(w, "timeout") || strings.Contains(w, "interrupted") {
				return "timeout"
			}
		}
	}
	return "unknown"
}

// runSolvers races (or, if all is set, runs to completion) the portfolio on
// one query text. wantModel appends (get-model) for solvers answering sat.
func runSolvers(name string, queries []string, timeoutS int, all bool, solvers []string) SolverResult {
	dir := scratchDir()
	safe := strings.Map(func(r rune) rune {
		if r >= 'a' && r <= 'z' || r >= 'A' && r <= 'Z' || r >= '0' && r <= '9' || r == '_' || r == '-' || r == '.' {
			return r
		}
		return '_'
	}, name)
	if len(safe) > 120 {
		safe = safe[:120]
	}
	var files []string
	for vi, query := range queries {
		file := filepath.Join(dir, fmt.Sprintf("%s-%d-v%d.smt2", safe, time.Now().UnixNano()%1000000, vi))
		if err := os.WriteFile(file, []byte(query), 0o644); err != nil {
			return SolverResult{Status: "error", Output: err.Error()}
		}
		defer os.Remove(file)
		files = append(files, file)
	}

	ctx, cancel := context.WithCancel(context.Background())
	defer cancel()
	type one struct {
		solver string
		status string
		out    string
		secs   float64
	}
	ch := make(chan one, len(solverSpecs)*len(files))
	n := 0
	for vi, file := range files {
		for _, sp := range solverSpecs {
			if len(solvers) > 0 {
				ok := false
				for _, s := range solvers {
					if s == sp.name {
						ok = true
					}
				}
				if !ok {
					continue
				}
			}
			n++
			sp := sp
			file := file
			sname := sp.name
			if vi > 0 {
				sname = fmt.Sprintf("%s/rec", sp.name)
			}
			go func() {
				// The limit that decides "timeout" is CPU time of the solver process (ulimit -t), so a
				// loaded machine does not turn a provable obligation into an undecided one; the
				// solver's own wall-clock limit and the context deadline are only a backstop.
				wall := timeoutS * wallFactor
				argv := sp.argv(file, wall)
				c, cc := context.WithTimeout(ctx, time.Duration(wall+5)*time.Second)
				defer cc()
				sh := append([]string{"-c", fmt.Sprintf("ulimit -t %d; exec \"$@\"", timeoutS), "sh"}, argv...)
				cmd := exec.CommandContext(c, "/bin/sh", sh...)
				var buf bytes.Buffer
				cmd.Stdout = &buf
				cmd.Stderr = &buf
				t0 := time.Now()
				_ = cmd.Run()
				out := buf.String()
				st := parseStatus(out)
				if c.Err() != nil && st == "unknown" {
					st = "timeout"
				}
				if st == "unknown" && cmd.ProcessState != nil && !cmd.ProcessState.Success() && strings.TrimSpace(out) == "" {
					// killed by the CPU limit (SIGXCPU/SIGKILL) before answering
					st = "timeout"
				}
				ch <- one{sname, st, out, time.Since(t0).Seconds()}
			}()
		}
	}
	res := SolverResult{Status: "unknown", All: map[string]string{}}
	var best *one
	nerr := 0
	for i := 0; i < n; i++ {
		o := <-ch
		res.All[o.solver] = o.status
		if o.status == "unsat" || o.status == "sat" {
			if best == nil {
				oc := o
				best = &oc
				if !all {
					cancel()
					break
				}
			} else if best.status != o.status {
				res.Status = "error"
				res.Output = fmt.Sprintf("solver disagreement: %s=%s %s=%s", best.solver, best.status, o.solver, o.status)
				return res
			}
		} else if best == nil && res.Output == "" {
			res.Output = trimOut(o.out)
			res.Solver = o.solver
			res.Seconds = o.secs
			if o.status == "timeout" {
				res.Status = "timeout"
			}
		} else if best == nil && o.status == "error" {
			// keep errors visible
			res.Output += "\n[" + o.solver + "] " + trimOut(o.out)
		}
		if o.status == "error" {
			nerr++
		}
	}
	if best == nil && nerr == n && n > 0 {
		res.Status = "error"
	}
	if best != nil {
		res.Status = best.status
		res.Solver = best.solver
		res.Seconds = best.secs
		res.Output = trimOut(best.out)
		if best.status == "sat" {
			if i := strings.Index(best.out, "sat"); i >= 0 {
				res.Model = strings.TrimSpace(best.out[i+3:])
			}
		}
	}
	return res
}

func trimOut(s string) string {
	s = strings.TrimSpace(s)
	if len(s) > 6000 {
		s = s[:6000] + "…"
	}
	return s
}
