package main

import (
	"fmt"
	"go/constant"
	"go/types"
	"sort"
	"strconv"
	"strings"

	"golang.org/x/tools/go/ssa"
)

// SpecEnv translates spec expressions into SMT terms.
type SpecEnv struct {
	c             *Ctx
	fr            *frame
	vars          map[string]Val
	st            *State
	old           *State
	oldAlloc      string
	pkg           *types.Package
	results       []Val
	resultNames   []string
	loop          *loopInfo
	heapParams    map[string]bool // when translating a spec function body: heaps used
	inSpecFn      string
	paramsAtEntry bool // postconditions: a parameter name denotes the argument the caller passed
	curInst       *specInst
	err           []string
}

var tInt = types.Typ[types.Int]
var tBool = types.Typ[types.Bool]
var tF = types.Typ[types.Float64]

func (e *SpecEnv) errorf(format string, args ...interface{}) Val {
	msg := fmt.Sprintf(format, args...)
	e.c.errs = append(e.c.errs, "spec: "+msg)
	return Val{T: "false", Ty: tBool}
}

func (e *SpecEnv) sub(st *State) *SpecEnv {
	n := *e
	n.st = st
	return &n
}

func (e *SpecEnv) withVar(name string, v Val) *SpecEnv {
	n := *e
	n.vars = map[string]Val{}
	for k, x := range e.vars {
		n.vars[k] = x
	}
	n.vars[name] = v
	return &n
}

// heapOf returns the heap term to read elements of sort es.
func (e *SpecEnv) heapOf(key string) string {
	if e.heapParams != nil {
		e.heapParams[key] = true
		return "P" + heapKey(key)
	}
	return e.c.heap(e.st, key)
}

func (e *SpecEnv) trBool(x Expr) string {
	v := e.tr(x)
	if v.Ty == nil || !isBool(v.Ty) {
		e.errorf("expected bool: %s", x)
		return "false"
	}
	return v.T
}

func (c *Ctx) resolveType(te *TypeExpr, pkg *types.Package) types.Type {
	switch te.Kind {
	case "ptr":
		if el := c.resolveType(te.Elem, pkg); el != nil {
			return types.NewPointer(el)
		}
		return nil
	case "slice":
		if el := c.resolveType(te.Elem, pkg); el != nil {
			return types.NewSlice(el)
		}
		return nil
	case "array":
		var n int64
		fmt.Sscanf(te.N, "%d", &n)
		if el := c.resolveType(te.Elem, pkg); el != nil {
			return types.NewArray(el, n)
		}
		return nil
	case "map":
		k, v := c.resolveType(te.Key, pkg), c.resolveType(te.Elem, pkg)
		if k != nil && v != nil {
			return types.NewMap(k, v)
		}
		return nil
	}
	if te.Pkg == "" && te.Name == "any" {
		return types.NewInterfaceType(nil, nil)
	}
	if te.Pkg != "" {
		// imported package by name
		if pkg != nil {
			for _, imp := range pkg.Imports() {
				if imp.Name() == te.Pkg {
					if o := imp.Scope().Lookup(te.Name); o != nil {
						return o.Type()
					}
				}
			}
		}
		for path, p := range c.prog.TypesPkgs {
			if p.Name() == te.Pkg || path == te.Pkg {
				if o := p.Scope().Lookup(te.Name); o != nil {
					if _, ok := o.(*types.TypeName); ok {
						return o.Type()
					}
				}
			}
		}
		return nil
	}
	switch te.Name {
	case "real":
		return tF
	case "error":
		return types.Universe.Lookup("error").Type()
	}
	if pkg != nil {
		if o, ok := pkg.Scope().Lookup(te.Name).(*types.TypeName); ok {
			return o.Type()
		}
	}
	if o, ok := types.Universe.Lookup(te.Name).(*types.TypeName); ok {
		return o.Type()
	}
	return nil
}

func (e *SpecEnv) lookupIdent(name string) (Val, bool) {
	c := e.c
	if v, ok := e.vars[name]; ok {
		return v, true
	}
	if name == "result" && len(e.results) >= 1 {
		return e.results[0], true
	}
	if strings.HasPrefix(name, "result") && len(name) > 6 {
		var i int
		if _, err := fmt.Sscanf(name[6:], "%d", &i); err == nil && i < len(e.results) {
			return e.results[i], true
		}
	}
	for i, n := range e.resultNames {
		if n == name && n != "" && n != "_" && i < len(e.results) {
			return e.results[i], true
		}
	}
	if strings.HasSuffix(name, "@0") {
		// callee-side binding of a parameter (contract applied at a call site / in a lemma)
		if v, ok := e.vars[strings.TrimSuffix(name, "@0")]; ok {
			return v, true
		}
	}
	if strings.HasSuffix(name, "@pre") && e.fr != nil {
		// name@pre: value of a loop-carried variable at the head of the iteration being checked
		base := strings.TrimSuffix(name, "@pre")
		for _, li := range e.fr.loopList {
			if li.prevVals != nil {
				if v, ok := li.prevVals[base]; ok {
					return v, true
				}
			}
		}
		// outside a back-edge check (loop entry) it is the current value
		return e.lookupIdent(base)
	}
	if at := strings.Index(name, "@"); at > 0 && e.fr != nil {
		// name@N: the loop-carried variable `name` of loop N
		var n int
		fmt.Sscanf(name[at+1:], "%d", &n)
		if n == 0 {
			// name@0: the parameter's value at function entry
			if v, ok := e.fr.params[name[:at]]; ok {
				return v, true
			}
			return Val{}, false
		}
		for _, li := range e.fr.loopList {
			if li.ord == n {
				if pv, ok := li.phiNames[name[:at]]; ok {
					return e.fr.vals[pv], true
				}
			}
		}
		return Val{}, false
	}
	if strings.HasPrefix(name, "#") {
		// loop counter
		var n int
		fmt.Sscanf(name[1:], "%d", &n)
		if e.fr != nil {
			for _, li := range e.fr.loopList {
				if li.ord == n && li.counter != "" {
					return Val{T: li.counter, Ty: tInt}, true
				}
			}
		}
		return Val{}, false
	}
	if e.fr != nil {
		// phi of the enclosing loops by source variable name
		for li := e.loop; li != nil; li = li.parent {
			if pv, ok := li.phiNames[name]; ok {
				return e.fr.vals[pv], true
			}
			if li.rangeIdxName == name && li.counter != "" {
				// the index variable of `for i, x := range xs`: at the loop head it is the number of
				// completed iterations, exactly what i means in the counted form of the same loop
				return Val{T: li.counter, Ty: tInt}, true
			}
		}
		// free variables of closures denote the captured cells (pointers): *i is the value
		for _, fv := range e.fr.fn.FreeVars {
			if fv.Name() == name {
				return e.fr.vals[fv], true
			}
		}
		if e.paramsAtEntry {
			// In a postcondition a parameter stands for what the caller passed, also when the body
			// reassigns it or takes its address (binary.Write(w, order, &point)): otherwise a body
			// that overwrites the parameter before using it satisfies "wrote point" trivially.
			if v, ok := e.fr.params[name]; ok {
				return v, true
			}
		}
		if e.st == e.fr.entry && e.st != nil {
			// evaluation in the entry state (old(...)): a parameter denotes its entry value even
			// when it lives in a memory cell that the function body fills in later
			if v, ok := e.fr.params[name]; ok {
				return v, true
			}
		}
		if v, ok := e.fr.lookupDebug(name, e.st); ok {
			return v, true
		}
		if v, ok := e.fr.params[name]; ok {
			return v, true
		}
		// package-level constants shadow SSA register / callee names
		if e.pkg != nil {
			if o := e.pkg.Scope().Lookup(name); o != nil {
				if k, ok := o.(*types.Const); ok {
					return c.constToVal(k.Val(), k.Type()), true
				}
				// package-level variable: its current value
				if _, ok := o.(*types.Var); ok {
					if sp := c.prog.SSA.Package(e.pkg); sp != nil {
						if g, ok := sp.Members[name].(*ssa.Global); ok && e.st != nil {
							return e.fr.load(e.st, e.fr.globalPtr(g), 0), true
						}
					}
				}
			}
		}
		// SSA register names as an escape hatch
		for v, val := range e.fr.vals {
			if _, isFn := v.(*ssa.Function); isFn {
				continue
			}
			if v.Name() == name {
				return val, true
			}
		}
	}
	// package-level constants
	if e.pkg != nil {
		if o := e.pkg.Scope().Lookup(name); o != nil {
			if k, ok := o.(*types.Const); ok {
				return c.constToVal(k.Val(), k.Type()), true
			}
			// package-level variable inside a spec function / lemma body: the content of its
			// cell in the heap the spec function is applied to (a heap parameter)
			if _, ok := o.(*types.Var); ok && e.fr == nil {
				if sp := c.prog.SSA.Package(e.pkg); sp != nil {
					if g, ok := sp.Members[name].(*ssa.Global); ok {
						gn := "glob_" + sanitize(g.Pkg.Pkg.Name()+"_"+g.Name())
						c.declOnce("glob:"+gn, fmt.Sprintf("(declare-fun %s () Int)\n(assert (and (> %s 0) (< %s alloc0)))", gn, gn, gn))
						c.globals[gn] = true
						et := g.Type().(*types.Pointer).Elem()
						return Val{T: c.rd(e.heapOf(c.hk(et)), gn, "0"), Ty: et}, true
					}
				}
			}
		}
	}
	switch name {
	case "alloc0":
		return Val{T: "alloc0", Ty: tInt}, true
	}
	// last resort: a package-level function used as a value (e.g. the readers stored in a registry)
	if e.pkg != nil {
		if o := e.pkg.Scope().Lookup(name); o != nil {
			if _, ok := o.(*types.Func); ok {
				if sp := c.prog.SSA.Package(e.pkg); sp != nil {
					if fn := sp.Func(name); fn != nil {
						return Val{T: c.funcID(fn), Ty: fn.Type()}, true
					}
				}
			}
		}
	}
	return Val{}, false
}

func (c *Ctx) constToVal(k constant.Value, t types.Type) Val {
	switch k.Kind() {
	case constant.Bool:
		if constant.BoolVal(k) {
			return Val{T: "true", Ty: t}
		}
		return Val{T: "false", Ty: t}
	case constant.Int:
		if isFloat(t) {
			f, _ := constant.Float64Val(k)
			return Val{T: c.floatLit(f), Ty: t}
		}
		v, _ := constant.Int64Val(k)
		return Val{T: intLit(v), Ty: t}
	case constant.Float:
		f, _ := constant.Float64Val(k)
		return Val{T: c.floatLit(f), Ty: tF}
	case constant.String:
		return Val{T: c.strLit(constant.StringVal(k)), Ty: t}
	}
	return Val{T: "0", Ty: tInt}
}

// lookupDebug resolves a source variable at the current program point: among
// the DebugRef instructions for that name and the phi nodes carrying that
// name, the one whose block is the closest dominator of the current block
// (latest instruction within a block) gives the value.
func (fr *frame) lookupDebug(name string, st *State) (Val, bool) {
	depth := func(b *ssa.BasicBlock) int {
		n := 0
		for x := b; x != nil; x = x.Idom() {
			n++
		}
		return n
	}
	// a variable that lives in a memory cell (its address is taken somewhere) denotes
	// the cell's CURRENT content; SSA values loaded from it earlier may be stale
	for _, d := range fr.debug[name] {
		if !d.IsAddr {
			continue
		}
		a, ok := d.X.(*ssa.Alloc)
		if !ok {
			continue
		}
		if fr.cur != nil && !(a.Block() == fr.cur || a.Block().Dominates(fr.cur)) {
			continue
		}
		if _, known := fr.vals[a]; !known {
			continue
		}
		return fr.load(st, fr.val(a), 0), true
	}
	bestDepth, bestIdx := -1, -2
	var bestVal ssa.Value
	bestAddr := false
	consider := func(b *ssa.BasicBlock, idx int, v ssa.Value, isAddr bool) {
		if fr.cur != nil && !(b == fr.cur || b.Dominates(fr.cur)) {
			return
		}
		if b == fr.cur && fr.curInstr >= 0 && idx > fr.curInstr {
			return
		}
		if _, ok := fr.vals[v]; !ok {
			switch v.(type) {
			case *ssa.Parameter, *ssa.Const, *ssa.Global, *ssa.Function:
			default:
				return
			}
		}
		d := depth(b)
		if d > bestDepth || d == bestDepth && idx > bestIdx {
			bestDepth, bestIdx, bestVal, bestAddr = d, idx, v, isAddr
		}
	}
	for _, d := range fr.debug[name] {
		idx := 0
		for k, ins := range d.Block().Instrs {
			if ins == ssa.Instruction(d) {
				idx = k
			}
		}
		consider(d.Block(), idx, d.X, d.IsAddr)
	}
	for _, b := range fr.fn.Blocks {
		for k, ins := range b.Instrs {
			phi, ok := ins.(*ssa.Phi)
			if !ok {
				break
			}
			if phi.Comment == name {
				consider(b, k, phi, false)
			}
		}
	}
	if bestVal == nil {
		return Val{}, false
	}
	v := fr.val(bestVal)
	if bestAddr {
		return fr.load(st, v, 0), true
	}
	return v, true
}

func (e *SpecEnv) coerce(a, b Val) (Val, Val) {
	// integer literal used with float
	if a.Ty != nil && b.Ty != nil {
		if isFloat(a.Ty) && isInteger(b.Ty) {
			b = e.intToFloat(b)
		} else if isInteger(a.Ty) && isFloat(b.Ty) {
			a = e.intToFloat(a)
		}
	}
	return a, b
}

func (e *SpecEnv) intToFloat(v Val) Val {
	c := e.c
	if k, ok := constTermInt(v.T); ok {
		return Val{T: c.floatLit(float64(k)), Ty: tF}
	}
	if strings.HasPrefix(v.T, "(- ") {
		var k int64
		if _, err := fmt.Sscanf(v.T, "(- %d)", &k); err == nil {
			return Val{T: c.floatLit(-float64(k)), Ty: tF}
		}
	}
	switch c.mode {
	case ModeXReal:
		return Val{T: "(xfin (to_real " + v.T + "))", Ty: tF}
	case ModeReal:
		return Val{T: "(to_real " + v.T + ")", Ty: tF}
	case ModeFP:
		return Val{T: "((_ to_fp 11 53) RNE (to_real " + v.T + "))", Ty: tF}
	}
	return Val{T: "(flit " + v.T + ")", Ty: tF}
}

func (e *SpecEnv) tr(x Expr) Val {
	c := e.c
	switch x := x.(type) {
	case *EInt:
		return Val{T: x.V, Ty: tInt}
	case *EFloat:
		return Val{T: c.floatLitText(x.V), Ty: tF}
	case *EBool:
		if x.V {
			return Val{T: "true", Ty: tBool}
		}
		return Val{T: "false", Ty: tBool}
	case *EString:
		return Val{T: c.strLit(x.V), Ty: types.Typ[types.String]}
	case *ENil:
		return Val{T: "nil", Ty: types.Typ[types.UntypedNil]}
	case *EIdent:
		if v, ok := e.lookupIdent(x.Name); ok {
			return v
		}
		return e.errorf("unknown identifier %q", x.Name)
	case *EUnary:
		v := e.tr(x.X)
		switch x.Op {
		case "!":
			return Val{T: not(v.T), Ty: tBool}
		case "-":
			if isFloat(v.Ty) {
				return Val{T: c.fneg(v.T), Ty: v.Ty}
			}
			return Val{T: "(- " + v.T + ")", Ty: v.Ty}
		case "*":
			return e.deref(v)
		}
	case *EBinary:
		return e.trBinary(x)
	case *ECond:
		cv := e.trBool(x.C)
		a, b := e.coerce(e.tr(x.A), e.tr(x.B))
		a, b = e.nilTo(a, b)
		return Val{T: ite(cv, a.T, b.T), Ty: a.Ty}
	case *EField:
		// package-qualified constant?
		if id, ok := x.X.(*EIdent); ok {
			if _, isVar := e.lookupIdent(id.Name); !isVar {
				for path, p := range c.prog.TypesPkgs {
					_ = path
					if p.Name() == id.Name {
						if o := p.Scope().Lookup(x.Name); o != nil {
							if k, ok := o.(*types.Const); ok {
								return c.constToVal(k.Val(), k.Type())
							}
						}
					}
				}
			}
		}
		v := e.tr(x.X)
		return e.field(v, x.Name)
	case *EIndex:
		v := e.tr(x.X)
		i := e.tr(x.I)
		return e.index(v, i)
	case *ESlice:
		v := e.tr(x.X)
		lo, hi := "0", ""
		if x.Lo != nil {
			lo = e.tr(x.Lo).T
		}
		if _, ok := v.Ty.Underlying().(*types.Slice); !ok {
			return e.errorf("slice expression on non-slice %s", x)
		}
		if x.Hi != nil {
			hi = e.tr(x.Hi).T
		} else {
			hi = "(slen " + v.T + ")"
		}
		return Val{T: fmt.Sprintf("(mkslice (sobj %s) (+ (soff %s) %s) (- %s %s) (- (scap %s) %s))", v.T, v.T, lo, hi, lo, v.T, lo), Ty: v.Ty}
	case *ETypeAssert:
		v := e.tr(x.X)
		t := c.resolveType(x.T, e.pkg)
		if t == nil {
			return e.errorf("unknown type %s", x.T)
		}
		if _, isIface := t.Underlying().(*types.Interface); isIface {
			return Val{T: v.T, Ty: t}
		}
		ub := c.unbox(t, "(ival "+v.T+")")
		if e.heapParams == nil && e.st != nil && !strings.Contains(v.T, "q_") && !strings.Contains(v.T, "a_") && !strings.Contains(v.T, "l_") {
			// the payload of an interface value is a well-formed, allocated value of its dynamic type
			bound := e.st.alloc
			if c.oldRooted(v.T, 0) {
				bound = "alloc0"
			}
			key := "ifacewf|" + v.T + "|" + c.typeTag(t)
			if w := c.wfTerm(ub, t, bound, 0); w != "true" && !c.declared[key] {
				c.declared[key] = true
				c.assume(implies(fmt.Sprintf("(= (itag %s) %s)", v.T, c.typeTag(t)), w))
			}
		}
		return Val{T: ub, Ty: t}
	case *EQuant:
		ne := *e
		ne.vars = map[string]Val{}
		for k, v := range e.vars {
			ne.vars[k] = v
		}
		var binders []string
		var guards []string
		for _, p := range x.Vars {
			t := c.resolveType(p.T, e.pkg)
			if t == nil {
				return e.errorf("unknown type %s in quantifier", p.T)
			}
			name := "q_" + p.Name
			ne.vars[p.Name] = Val{T: name, Ty: t}
			binders = append(binders, fmt.Sprintf("(%s %s)", name, c.sortOf(t)))
			_ = guards
		}
		body := ne.trBool(x.Body)
		q := "exists"
		if x.Forall {
			q = "forall"
		}
		if len(x.Pats) == 0 {
			body = absolutizeIndex(body, x.Vars, c)
		}
		if len(x.Pats) > 0 {
			var ps []string
			for _, p := range x.Pats {
				ps = append(ps, ne.tr(p).T)
			}
			body = fmt.Sprintf("(! %s :pattern (%s))", body, strings.Join(ps, " "))
		}
		return Val{T: fmt.Sprintf("(%s (%s) %s)", q, strings.Join(binders, " "), body), Ty: tBool}
	case *ELet:
		v := e.tr(x.V)
		ne := e.withVar(x.Name, Val{T: "l_" + x.Name, Ty: v.Ty})
		b := ne.tr(x.B)
		return Val{T: fmt.Sprintf("(let ((l_%s %s)) %s)", x.Name, v.T, b.T), Ty: b.Ty}
	case *ECall:
		return e.trCall(x)
	case *EType:
		t := c.resolveType(x.T, e.pkg)
		if t == nil {
			return e.errorf("unknown type %s", x.T)
		}
		return Val{T: c.typeTag(t), Ty: nil}
	}
	return e.errorf("cannot translate %s", x)
}

func (e *SpecEnv) nilTo(a, b Val) (Val, Val) {
	c := e.c
	if a.T == "nil" && b.Ty != nil && b.T != "nil" {
		a = Val{T: c.zero(b.Ty), Ty: b.Ty}
	}
	if b.T == "nil" && a.Ty != nil && a.T != "nil" {
		b = Val{T: c.zero(a.Ty), Ty: a.Ty}
	}
	return a, b
}

func (e *SpecEnv) deref(v Val) Val {
	c := e.c
	if v.Local != nil || v.Path != nil {
		if e.fr != nil {
			return e.fr.load(e.st, v, 0)
		}
	}
	pt, ok := v.Ty.Underlying().(*types.Pointer)
	if !ok {
		return e.errorf("deref of non-pointer")
	}
	es := c.hk(pt.Elem())
	h := e.heapOf(es)
	if e.heapParams == nil {
		// references stored in the cell read here are allocated (heap well-formedness)
		c.wantSliceWF(es, h)
	}
	return Val{T: c.rd(h, c.acc("pobj", v.T), c.acc("pidx", v.T)), Ty: pt.Elem()}
}

func (e *SpecEnv) field(v Val, name string) Val {
	c := e.c
	if v.Ty == nil {
		return e.errorf("field %s of untyped", name)
	}
	t := v.Ty
	if pt, ok := t.Underlying().(*types.Pointer); ok {
		v = e.deref(v)
		t = pt.Elem()
	}
	st := structOf(t)
	if st == nil {
		return e.errorf("field %s of non-struct %s", name, t)
	}
	for i := 0; i < st.NumFields(); i++ {
		if st.Field(i).Name() == name {
			return Val{T: c.fieldSel(t, i, v.T), Ty: st.Field(i).Type()}
		}
	}
	// promoted field through embedded struct
	for i := 0; i < st.NumFields(); i++ {
		if st.Field(i).Embedded() {
			inner := Val{T: c.fieldSel(t, i, v.T), Ty: st.Field(i).Type()}
			if is := structOf(derefType(inner.Ty)); is != nil {
				for j := 0; j < is.NumFields(); j++ {
					if is.Field(j).Name() == name {
						return e.field(inner, name)
					}
				}
			}
		}
	}
	return e.errorf("no field %s in %s", name, t)
}

func addOff(off, i string) string {
	if off == "0" {
		return i
	}
	if i == "0" {
		return off
	}
	return "(ix " + off + " " + i + ")"
}

func derefType(t types.Type) types.Type {
	if pt, ok := t.Underlying().(*types.Pointer); ok {
		return pt.Elem()
	}
	return t
}

func (e *SpecEnv) index(v, i Val) Val {
	c := e.c
	switch tt := v.Ty.Underlying().(type) {
	case *types.Slice:
		es := c.hk(tt.Elem())
		h := e.heapOf(es)
		if e.heapParams == nil {
			c.wantSliceWF(es, h)
		}
		return Val{T: c.rd(h, c.acc("sobj", v.T), addOff(c.acc("soff", v.T), i.T)), Ty: tt.Elem()}
	case *types.Array:
		return Val{T: fmt.Sprintf("(select %s %s)", v.T, i.T), Ty: tt.Elem()}
	case *types.Map:
		k := c.mapKey(v.Ty)
		ks, vs := c.sortOf(tt.Key()), c.sortOf(tt.Elem())
		c.heapSorts[k+"!dom"] = "(Array Int (Array " + ks + " Bool))"
		c.heapSorts[k+"!val"] = "(Array Int (Array " + ks + " " + vs + "))"
		if e.heapParams == nil {
			c.wantSliceWF(k+"!val", e.heapOf(k+"!val"))
		}
		return Val{T: fmt.Sprintf("(select (select %s %s) %s)", e.heapOf(k+"!val"), v.T, i.T), Ty: tt.Elem()}
	case *types.Pointer:
		if at, ok := tt.Elem().Underlying().(*types.Array); ok {
			es := c.hk(at.Elem())
			return Val{T: c.rd(e.heapOf(es), c.acc("pobj", v.T), addOff(c.acc("pidx", v.T), i.T)), Ty: at.Elem()}
		}
	}
	return e.errorf("index of %s", v.Ty)
}

func (e *SpecEnv) trBinary(x *EBinary) Val {
	c := e.c
	switch x.Op {
	case "&&":
		return Val{T: and(e.trBool(x.X), e.trBool(x.Y)), Ty: tBool}
	case "||":
		return Val{T: or(e.trBool(x.X), e.trBool(x.Y)), Ty: tBool}
	case "==>":
		return Val{T: implies(e.trBool(x.X), e.trBool(x.Y)), Ty: tBool}
	case "<==>":
		return Val{T: "(= " + e.trBool(x.X) + " " + e.trBool(x.Y) + ")", Ty: tBool}
	}
	// typeof(x) == T
	if x.Op == "==" || x.Op == "!=" {
		if isTypeof(x.X) || isTypeof(x.Y) {
			a, b := e.trTypeSide(x.X), e.trTypeSide(x.Y)
			t := eq(a, b)
			if x.Op == "!=" {
				t = not(t)
			}
			return Val{T: t, Ty: tBool}
		}
	}
	// constant folding in double arithmetic: a spec literal expression such as 35.0 / 3072.0
	// denotes what the Go compiler / a JavaScript engine computes, i.e. the rounded double
	if v, ok := constFold(x); ok {
		return Val{T: c.floatLit(v), Ty: tF}
	}
	a, b := e.tr(x.X), e.tr(x.Y)
	a, b = e.coerce(a, b)
	a, b = e.nilTo(a, b)
	if a.Ty == nil || b.Ty == nil {
		return e.errorf("untyped operand in %s", x)
	}
	switch x.Op {
	case "==":
		return Val{T: c.goEq(a.Ty, a.T, b.T), Ty: tBool}
	case "!=":
		return Val{T: not(c.goEq(a.Ty, a.T, b.T)), Ty: tBool}
	case "<", "<=", ">", ">=":
		if isFloat(a.Ty) {
			return Val{T: c.fcmp(x.Op, a.T, b.T), Ty: tBool}
		}
		return Val{T: "(" + x.Op + " " + a.T + " " + b.T + ")", Ty: tBool}
	case "+", "-", "*", "/", "%":
		if isFloat(a.Ty) {
			if x.Op == "%" {
				return e.errorf("%% on floats")
			}
			return Val{T: c.fbin(x.Op, a.T, b.T), Ty: a.Ty}
		}
		switch x.Op {
		case "/":
			return Val{T: "(div " + a.T + " " + b.T + ")", Ty: a.Ty}
		case "%":
			return Val{T: "(mod " + a.T + " " + b.T + ")", Ty: a.Ty}
		}
		if x.Op == "+" || x.Op == "-" {
			return Val{T: linAdd(x.Op, a.T, b.T), Ty: a.Ty}
		}
		return Val{T: "(" + x.Op + " " + a.T + " " + b.T + ")", Ty: a.Ty}
	}
	return e.errorf("operator %s", x.Op)
}

// linAdd builds a + b / a - b over integers, folding integer constants through one level of
// (+ X n) / (- X n): (j - 1) + 1 becomes j. Index terms that differ only by such re-basing are then
// syntactically equal, which quantifier instantiation needs (it does not do arithmetic).
func linAdd(op, a, b string) string {
	split := func(t string) (string, int64, bool) {
		if n, ok := constTermInt(t); ok {
			return "", n, true
		}
		if args := splitArgs(t); len(args) == 3 && (args[0] == "+" || args[0] == "-") {
			if n, ok := constTermInt(args[2]); ok {
				if args[0] == "-" {
					n = -n
				}
				return args[1], n, true
			}
			if n, ok := constTermInt(args[1]); ok && args[0] == "+" {
				return args[2], n, true
			}
		}
		return t, 0, true
	}
	ba, ca, _ := split(a)
	bb, cb, _ := split(b)
	plain := "(" + op + " " + a + " " + b + ")"
	if bb != "" {
		// the right operand is not a constant: only fold when the left is a pure constant and op is +
		if ba == "" && op == "+" && cb == 0 {
			return plain
		}
		return plain
	}
	// right operand is the constant cb
	if op == "-" {
		cb = -cb
	}
	k := ca + cb
	if ba == "" {
		return intLit(k)
	}
	switch {
	case k == 0:
		return ba
	case k > 0:
		return "(+ " + ba + " " + intLit(k) + ")"
	default:
		return "(- " + ba + " " + intLit(-k) + ")"
	}
}

func isTypeof(x Expr) bool {
	c, ok := x.(*ECall)
	if !ok {
		return false
	}
	id, ok := c.Fun.(*EIdent)
	return ok && id.Name == "typeof"
}

// trTypeSide translates either typeof(e) or a type expression to a tag term.
func (e *SpecEnv) trTypeSide(x Expr) string {
	c := e.c
	if isTypeof(x) {
		v := e.tr(x.(*ECall).Args[0])
		return "(itag " + v.T + ")"
	}
	te := exprToType(x)
	if te == nil {
		// not a type expression: an Int-valued term holding a type tag (e.g. a spec function result)
		if _, isCall := x.(*ECall); isCall {
			v := e.tr(x)
			if v.Ty == tInt {
				return v.T
			}
		}
		e.errorf("expected a type: %s", x)
		return "0"
	}
	if te.Kind == "name" && te.Name == "nil" {
		return "0"
	}
	t := c.resolveType(te, e.pkg)
	if t == nil {
		e.errorf("unknown type %s", te)
		return "0"
	}
	return c.typeTag(t)
}

func exprToType(x Expr) *TypeExpr {
	switch x := x.(type) {
	case *EIdent:
		return &TypeExpr{Kind: "name", Name: x.Name}
	case *ENil:
		return &TypeExpr{Kind: "name", Name: "nil"}
	case *EUnary:
		if x.Op == "*" {
			if el := exprToType(x.X); el != nil {
				return &TypeExpr{Kind: "ptr", Elem: el}
			}
		}
	case *EField:
		if id, ok := x.X.(*EIdent); ok {
			return &TypeExpr{Kind: "name", Pkg: id.Name, Name: x.Name}
		}
	case *EType:
		return x.T
	}
	return nil
}

func (e *SpecEnv) trCall(x *ECall) Val {
	c := e.c
	id, ok := x.Fun.(*EIdent)
	if !ok {
		// pkg.Func(...)
		if f, ok := x.Fun.(*EField); ok {
			if pid, ok := f.X.(*EIdent); ok {
				return e.trNamedCall(pid.Name+"."+f.Name, x.Args)
			}
		}
		return e.errorf("call of %s", x.Fun)
	}
	switch id.Name {
	case "old":
		if e.old == nil {
			return e.errorf("old() not allowed here")
		}
		return e.sub(e.old).tr(x.Args[0])
	case "len":
		v := e.tr(x.Args[0])
		switch tt := v.Ty.Underlying().(type) {
		case *types.Slice:
			return Val{T: "(slen " + v.T + ")", Ty: tInt}
		case *types.Basic:
			return Val{T: "(strlen " + v.T + ")", Ty: tInt}
		case *types.Array:
			return Val{T: fmt.Sprint(tt.Len()), Ty: tInt}
		case *types.Map:
			if e.fr != nil {
				return Val{T: e.fr.mapLen(e.st, v.Ty, v.T), Ty: tInt}
			}
		}
		return e.errorf("len of %s", v.Ty)
	case "cap":
		v := e.tr(x.Args[0])
		return Val{T: "(scap " + v.T + ")", Ty: tInt}
	case "typeof":
		v := e.tr(x.Args[0])
		return Val{T: "(itag " + v.T + ")", Ty: tInt}
	case "fresh":
		v := e.tr(x.Args[0])
		oa := e.oldAlloc
		if oa == "" {
			oa = "alloc0"
		}
		switch v.Ty.Underlying().(type) {
		case *types.Slice:
			return Val{T: fmt.Sprintf("(or (= (scap %s) 0) (>= (sobj %s) %s))", v.T, v.T, oa), Ty: tBool}
		case *types.Pointer:
			return Val{T: fmt.Sprintf("(>= (pobj %s) %s)", v.T, oa), Ty: tBool}
		case *types.Signature, *types.Map:
			return Val{T: fmt.Sprintf("(>= %s %s)", v.T, oa), Ty: tBool}
		}
		return e.errorf("fresh of %s", v.Ty)
	case "allocated":
		cur, ok := e.st.ghost["allocated"]
		if !ok {
			c.declOnce("allocated_0", "(declare-fun allocated_0 () Int)")
			cur = "allocated_0"
		}
		return Val{T: cur, Ty: tInt}
	case "goMin", "goMax":
		a, b := e.coerce(e.tr(x.Args[0]), e.tr(x.Args[1]))
		return Val{T: c.goMinMax(id.Name == "goMin", a.T, b.T), Ty: tF}
	case "abs":
		v := e.tr(x.Args[0])
		if isFloat(v.Ty) {
			return Val{T: c.fabs(v.T), Ty: tF}
		}
		return Val{T: "(abs " + v.T + ")", Ty: tInt}
	case "sqrt":
		return Val{T: c.fsqrt(e.tr(x.Args[0]).T), Ty: tF}
	case "isNaN":
		return Val{T: c.fisNaN(e.tr(x.Args[0]).T), Ty: tBool}
	case "isInf":
		return Val{T: c.fisInf(e.tr(x.Args[0]).T, "0"), Ty: tBool}
	case "appendOf":
		// appendOf(c, a, b): c is the value returned by append(a, b...) (a fact recorded by the engine)
		c.declOnce("appendOf", "(declare-fun appendOf (Slice Slice Slice) Bool)")
		return Val{T: fmt.Sprintf("(appendOf %s %s %s)", e.tr(x.Args[0]).T, e.tr(x.Args[1]).T, e.tr(x.Args[2]).T), Ty: tBool}
	case "sameBase":
		// two slices start at the same element of the same (non-nil) backing array and
		// have the same capacity: one is the other re-sliced in place (append within capacity)
		a, b := e.tr(x.Args[0]), e.tr(x.Args[1])
		return Val{T: fmt.Sprintf("(and (= %s %s) (not (= %s 0)) (= %s %s) (= %s %s))", c.acc("sobj", a.T), c.acc("sobj", b.T), c.acc("sobj", a.T), c.acc("soff", a.T), c.acc("soff", b.T), c.acc("scap", a.T), c.acc("scap", b.T)), Ty: tBool}
	case "sameObj":
		// both slices/pointers refer to the same allocated object (backing array)
		a, b := e.tr(x.Args[0]), e.tr(x.Args[1])
		oa, ob := "", ""
		for i, v := range []Val{a, b} {
			var o string
			switch v.Ty.Underlying().(type) {
			case *types.Slice:
				o = c.acc("sobj", v.T)
			case *types.Pointer:
				o = c.acc("pobj", v.T)
			default:
				return e.errorf("sameObj of %s", v.Ty)
			}
			if i == 0 {
				oa = o
			} else {
				ob = o
			}
		}
		return Val{T: fmt.Sprintf("(and (= %s %s) (not (= %s 0)))", oa, ob, oa), Ty: tBool}
	case "isFin":
		v := e.tr(x.Args[0])
		switch c.mode {
		case ModeXReal:
			return Val{T: "((_ is xfin) " + v.T + ")", Ty: tBool}
		case ModeFP:
			return Val{T: "(not (or (fp.isNaN " + v.T + ") (fp.isInfinite " + v.T + ")))", Ty: tBool}
		case ModeReal:
			return Val{T: "true", Ty: tBool}
		}
		return Val{T: c.ufun("m_isfin", "Bool", []string{"F"}, v.T), Ty: tBool}
	case "posInf":
		return Val{T: c.floatLit(posInf), Ty: tF}
	case "negInf":
		return Val{T: c.floatLit(negInf), Ty: tF}
	case "implements":
		// implements(x, I): the dynamic type of the interface value x implements interface type I
		// (the condition of `_, ok := x.(I)`)
		if len(x.Args) == 2 {
			v := e.tr(x.Args[0])
			if te := exprToType(x.Args[1]); te != nil {
				if t := c.resolveType(te, e.pkg); t != nil {
					if it, ok := t.Underlying().(*types.Interface); ok {
						return Val{T: c.implementsTerm(v.T, it), Ty: tBool}
					}
				}
			}
		}
		return e.errorf("implements(x, InterfaceType) expected")
	case "biteq":
		a, b := e.tr(x.Args[0]), e.tr(x.Args[1])
		if c.mode == ModeFP && a.Ty != nil {
			// IEEE mode: compare structs and small arrays field by field. z3 (4.8 and 5.1) answers
			// `sat` for valid goals that equate datatype values with NaN fields (it distinguishes
			// NaN representations inside datatypes; cvc5 does not) — a spurious refutation, never
			// a spurious proof, but a false alarm all the same. Scalar FP equality is handled right.
			return Val{T: c.bitEq(a.Ty, a.T, b.T), Ty: tBool}
		}
		return Val{T: eq(a.T, b.T), Ty: tBool}
	case "real":
		v := e.tr(x.Args[0])
		if isFloat(v.Ty) {
			return v
		}
		return e.intToFloat(v)
	case "isnil":
		v := e.tr(x.Args[0])
		return Val{T: c.goEq(v.Ty, v.T, c.zero(v.Ty)), Ty: tBool}
	case "sin", "cos", "tan", "asin", "acos", "atan", "exp", "log", "floor":
		return Val{T: c.ufun("m_"+id.Name, "F", []string{"F"}, e.toF(x.Args[0])), Ty: tF}
	case "atan2", "pow":
		return Val{T: c.ufun("m_"+id.Name, "F", []string{"F", "F"}, e.toF(x.Args[0]), e.toF(x.Args[1])), Ty: tF}
	case "objOf":
		// objOf(x): the identity (object id) of what x refers to, as an int
		if len(x.Args) != 1 {
			return e.errorf("objOf(x) expected")
		}
		obj, ok := e.ghostObj(x.Args[0])
		if !ok {
			return e.errorf("objOf: %s does not denote an object", x.Args[0])
		}
		return Val{T: obj, Ty: tInt}
	case "ghostO", "ghostAtO":
		// the same ghost cells addressed by object id
		if len(x.Args) < 2 {
			return e.errorf("ghostO(obj, \"name\") expected")
		}
		nm, ok := x.Args[1].(*EString)
		if !ok {
			return e.errorf("ghostO: the field name must be a string literal")
		}
		idx := "0"
		if id.Name == "ghostAtO" {
			if len(x.Args) != 3 {
				return e.errorf("ghostAtO(obj, \"name\", i) expected")
			}
			idx = e.tr(x.Args[2]).T
		}
		return Val{T: fmt.Sprintf("(select (select %s %s) %s)", e.heapOf("ghost!"+nm.V), e.tr(x.Args[0]).T, idx), Ty: tInt}
	case "ghost", "ghostAt":
		// ghost(x, "name") / ghostAt(x, "name", i): integer-valued specification state
		// attached to the object x refers to (interface payload, pointer target or
		// slice backing object); it changes only through contracts that list it in
		// their modifies clause
		if len(x.Args) < 2 {
			return e.errorf("ghost(x, \"name\") expected")
		}
		nm, ok := x.Args[1].(*EString)
		if !ok {
			return e.errorf("ghost: the field name must be a string literal")
		}
		obj, ok2 := e.ghostObj(x.Args[0])
		if !ok2 {
			return e.errorf("ghost: %s does not denote an object", x.Args[0])
		}
		idx := "0"
		if id.Name == "ghostAt" {
			if len(x.Args) != 3 {
				return e.errorf("ghostAt(x, \"name\", i) expected")
			}
			idx = e.tr(x.Args[2]).T
		}
		return Val{T: fmt.Sprintf("(select (select %s %s) %s)", e.heapOf("ghost!"+nm.V), obj, idx), Ty: tInt}
	case "mapHas":
		m := e.tr(x.Args[0])
		k := e.tr(x.Args[1])
		mt, ok := m.Ty.Underlying().(*types.Map)
		if !ok {
			return e.errorf("mapHas on non-map")
		}
		key := c.mapKey(m.Ty)
		ks, vs := c.sortOf(mt.Key()), c.sortOf(mt.Elem())
		c.heapSorts[key+"!dom"] = "(Array Int (Array " + ks + " Bool))"
		c.heapSorts[key+"!val"] = "(Array Int (Array " + ks + " " + vs + "))"
		return Val{T: fmt.Sprintf("(select (select %s %s) %s)", e.heapOf(key+"!dom"), m.T, k.T), Ty: tBool}
	}
	return e.trNamedCall(id.Name, x.Args)
}

func (e *SpecEnv) toF(x Expr) string {
	v := e.tr(x)
	if isInteger(v.Ty) {
		return e.intToFloat(v).T
	}
	return v.T
}

// ---------- spec functions ----------

type specInst struct {
	name    string
	heaps   []string
	ret     types.Type
	params  []types.Type
	pending bool
	rec     bool
	sf      *SpecFunc
	recDeps map[string]*specInst // recursive spec functions used (transitively) by the body
}

func (c *Ctx) findSpec(name string, pkg *types.Package) *SpecFunc {
	if pkg != nil {
		if sf, ok := c.prog.Contracts.Specs[pkg.Path()+"::"+name]; ok {
			return sf
		}
	}
	var keys []string
	for k := range c.prog.Contracts.Specs {
		keys = append(keys, k)
	}
	sort.Strings(keys)
	for _, k := range keys {
		if strings.HasSuffix(k, "::"+name) {
			return c.prog.Contracts.Specs[k]
		}
	}
	return nil
}

// instSpec instantiates a spec function. A spec function is generic in the Go
// type of a reference-typed parameter as long as the SMT sort agrees (e.g.
// sumLen over []Path applied to a []LineString): heaps are keyed by Go type, so
// each such use gets its own instance whose body reads the heaps of the actual
// argument types.
func (c *Ctx) instSpec(sf *SpecFunc, actual []types.Type) *specInst {
	key := sf.Pkg + "::" + sf.Name
	pkg := c.prog.TypesPkgs[sf.Pkg]
	subst := map[int]types.Type{}
	suffix := ""
	for i, p := range sf.Params {
		if i >= len(actual) || actual[i] == nil {
			continue
		}
		t := c.resolveType(p.T, pkg)
		if t == nil || types.Identical(t, actual[i]) || !isRefType(t) || !isRefType(actual[i]) {
			continue
		}
		if _, isIface := t.Underlying().(*types.Interface); isIface {
			continue
		}
		if c.sortOf(t) == c.sortOf(actual[i]) && elemKeysDiffer(c, t, actual[i]) {
			subst[i] = actual[i]
			suffix += fmt.Sprintf("|%d=%s", i, types.TypeString(actual[i], nil))
		}
	}
	key += suffix
	if si, ok := c.specDone[key]; ok {
		return si
	}
	nm := "sp_" + sanitize(sf.Name)
	if suffix != "" {
		nm += fmt.Sprintf("_g%d", hashStr(suffix)%100000)
	}
	si := &specInst{name: nm, pending: true, sf: sf, recDeps: map[string]*specInst{}}
	c.specDone[key] = si
	var ptypes []types.Type
	vars := map[string]Val{}
	var formals []string
	for pi, p := range sf.Params {
		t := c.resolveType(p.T, pkg)
		if st, ok := subst[pi]; ok {
			t = st
		}
		if t == nil {
			c.errs = append(c.errs, fmt.Sprintf("spec %s: unknown type %s", sf.Name, p.T))
			t = tInt
		}
		ptypes = append(ptypes, t)
		vars[p.Name] = Val{T: "a_" + p.Name, Ty: t}
		formals = append(formals, fmt.Sprintf("(a_%s %s)", p.Name, c.sortOf(t)))
	}
	si.params = ptypes
	si.ret = c.resolveType(sf.Ret, pkg)
	if si.ret == nil {
		c.errs = append(c.errs, fmt.Sprintf("spec %s: unknown return type %s", sf.Name, sf.Ret))
		si.ret = tInt
	}
	if sf.Body == nil {
		// uninterpreted: heap independent
		var ss []string
		for _, t := range ptypes {
			ss = append(ss, c.sortOf(t))
		}
		c.decl(fmt.Sprintf("(declare-fun %s (%s) %s)", si.name, strings.Join(ss, " "), c.sortOf(si.ret)))
		si.pending = false
		return si
	}
	env := &SpecEnv{c: c, vars: vars, st: newEntryState(), pkg: pkg, heapParams: map[string]bool{}, inSpecFn: key, curInst: si}
	// first pass discovers heaps (recursive calls use a placeholder)
	body := env.tr(sf.Body)
	if isInteger(si.ret) && isFloat(body.Ty) || isFloat(si.ret) && isInteger(body.Ty) {
		if isFloat(si.ret) {
			body = env.intToFloat(body)
		}
	}
	var hs []string
	for k := range env.heapParams {
		hs = append(hs, k)
	}
	sort.Strings(hs)
	si.heaps = hs
	for _, k := range hs {
		formals = append(formals, fmt.Sprintf("(P%s %s)", heapKey(k), c.heapSortOf(k)))
	}
	// patch placeholder in recursive calls
	var hnames []string
	for _, k := range hs {
		hnames = append(hnames, "P"+heapKey(k))
	}
	bodyT := strings.ReplaceAll(body.T, "@@HEAPS:"+si.name+"@@", strings.Join(hnames, " "))
	if strings.Contains(bodyT, "("+si.name+" ") {
		// recursive: uninterpreted symbol with a fuel argument; one unfolding per unit of fuel
		si.rec = true
		var sorts, names []string
		for _, f := range formals {
			a := splitArgs(f)
			names = append(names, a[0])
			sorts = append(sorts, strings.TrimSpace(f[len(a[0])+2:len(f)-1]))
		}
		c.declOnce("fuel", "(declare-datatypes ((Fuel 0)) (((FZ) (FS (fpred Fuel)))))")
		app := "(" + si.name + " (FS fu) " + strings.Join(names, " ") + ")"
		lower := "(" + si.name + " fu " + strings.Join(names, " ") + ")"
		unf := strings.ReplaceAll(bodyT, "@@FUEL@@", "fu")
		fuelForm := fmt.Sprintf("(declare-fun %s (Fuel %s) %s)\n", si.name, strings.Join(sorts, " "), c.sortOf(si.ret)) +
			fmt.Sprintf("(assert (forall ((fu Fuel) %s) (! (= %s %s) :pattern (%s))))\n", strings.Join(formals, " "), app, unf, app) +
			fmt.Sprintf("(assert (forall ((fu Fuel) %s) (! (= %s %s) :pattern (%s))))", strings.Join(formals, " "), app, lower, app)
		recForm := fmt.Sprintf("(define-fun-rec %s ((fu Fuel) %s) %s %s)", si.name, strings.Join(formals, " "), c.sortOf(si.ret), unf)
		c.recForms = append(c.recForms, [2]string{fuelForm, recForm})
		c.decl(fmt.Sprintf("@@REC:%d@@", len(c.recForms)-1))
		si.pending = false
		return si
	}
	if sf.Opaque && len(formals) > 0 {
		var sorts, names []string
		for _, f := range formals {
			a := splitArgs(f)
			names = append(names, a[0])
			sorts = append(sorts, strings.TrimSpace(f[len(a[0])+2:len(f)-1]))
		}
		app := "(" + si.name + " " + strings.Join(names, " ") + ")"
		c.decl(fmt.Sprintf("(declare-fun %s (%s) %s)", si.name, strings.Join(sorts, " "), c.sortOf(si.ret)))
		c.decl(fmt.Sprintf("(assert (forall (%s) (! (= %s %s) :pattern (%s))))", strings.Join(formals, " "), app, bodyT, app))
		si.pending = false
		return si
	}
	c.decl(fmt.Sprintf("(define-fun %s (%s) %s %s)", si.name, strings.Join(formals, " "), c.sortOf(si.ret), bodyT))
	si.pending = false
	return si
}

func (e *SpecEnv) trNamedCall(name string, args []Expr) Val {
	c := e.c
	sf := c.findSpec(name, e.pkg)
	if sf == nil {
		// struct constructor: T(field values in order)
		if te, err := parseTypeExpr(name); err == nil {
			if t := c.resolveType(te, e.pkg); t != nil {
				if st := structOf(t); st != nil && st.NumFields() == len(args) {
					var as []string
					for i, a := range args {
						v := e.tr(a)
						if isFloat(st.Field(i).Type()) && v.Ty != nil && isInteger(v.Ty) {
							v = e.intToFloat(v)
						}
						as = append(as, v.T)
					}
					return Val{T: "(mk_" + c.sortOf(t) + " " + strings.Join(as, " ") + ")", Ty: t}
				}
			}
		}
		return e.errorf("unknown spec function %q", name)
	}
	if len(args) != len(sf.Params) {
		return e.errorf("spec %s: %d arguments expected", name, len(sf.Params))
	}
	var argVals []Val
	var argTypes []types.Type
	for _, a := range args {
		v := e.tr(a)
		argVals = append(argVals, v)
		if v.T == "nil" {
			argTypes = append(argTypes, nil)
		} else {
			argTypes = append(argTypes, v.Ty)
		}
	}
	si := c.instSpec(sf, argTypes)
	var ts []string
	for i := range args {
		v := argVals[i]
		if i < len(si.params) {
			if isFloat(si.params[i]) && v.Ty != nil && isInteger(v.Ty) {
				v = e.intToFloat(v)
			}
			if v.T == "nil" {
				v = Val{T: c.zero(si.params[i]), Ty: si.params[i]}
			}
		}
		ts = append(ts, v.T)
	}
	if si.pending {
		// recursive call while translating the body
		if e.heapParams == nil {
			return e.errorf("recursive instantiation of %s", name)
		}
		t := "(" + si.name + " @@FUEL@@ " + strings.Join(append(ts, "@@HEAPS:"+si.name+"@@"), " ") + ")"
		return Val{T: t, Ty: si.ret}
	}
	refArgs := []string{}
	for i, a := range ts {
		if i < len(si.params) && isRefType(si.params[i]) {
			refArgs = append(refArgs, a)
		}
	}
	if e.curInst != nil && e.curInst != si {
		if si.rec || sf.Opaque {
			e.curInst.recDeps[si.name] = si
		}
		for n, d := range si.recDeps {
			e.curInst.recDeps[n] = d
		}
	}
	var curHeaps []string
	for _, k := range si.heaps {
		h := e.heapForSpec(k, si, refArgs)
		if e.heapParams == nil {
			c.wantSliceWF(k, h)
		}
		ts = append(ts, h)
		curHeaps = append(curHeaps, h)
	}
	if e.heapParams == nil && e.fr != nil {
		if si.rec || sf.Opaque {
			e.specFrameAxiom(sf, si, curHeaps)
			e.specCallFrame(sf, si, curHeaps, 0)
		}
		byKey := map[string]string{}
		for i, k := range si.heaps {
			byKey[k] = curHeaps[i]
		}
		var names []string
		for n := range si.recDeps {
			names = append(names, n)
		}
		sort.Strings(names)
		for _, n := range names {
			d := si.recDeps[n]
			var hs []string
			ok := true
			for _, k := range d.heaps {
				h, found := byKey[k]
				if !found {
					ok = false
				}
				hs = append(hs, h)
			}
			if ok && d != si {
				e.specFrameAxiom(d.sf, d, hs)
				e.specCallFrame(d.sf, d, hs, 0)
			}
		}
	}
	if si.rec {
		fuel := "(FS (FS FZ))"
		if e.inSpecFn != "" {
			fuel = "(FS FZ)"
		}
		ts = append([]string{fuel}, ts...)
	}
	if len(ts) == 0 {
		return Val{T: si.name, Ty: si.ret}
	}
	return Val{T: "(" + si.name + " " + strings.Join(ts, " ") + ")", Ty: si.ret}
}

// modItems evaluates a modifies expression to the objects it denotes.
func (e *SpecEnv) modItems(m Expr) []modItem {
	c := e.c
	// *p  |  s (slice: whole backing object)  |  p (pointer: its object)
	deref := false
	if u, ok := m.(*EUnary); ok && u.Op == "*" {
		m = u.X
		deref = true
	}
	if call, ok := m.(*ECall); ok {
		if id, ok := call.Fun.(*EIdent); ok && id.Name == "ghost" && len(call.Args) == 2 {
			if nm, ok := call.Args[1].(*EString); ok {
				if obj, ok := e.ghostObj(call.Args[0]); ok {
					return []modItem{{sortKey: "ghost!" + nm.V, obj: obj}}
				}
			}
			e.errorf("modifies ghost(x, \"name\"): bad arguments")
			return nil
		}
		if id, ok := call.Fun.(*EIdent); ok && id.Name == "each" && len(call.Args) == 1 {
			// each(x): x is a slice of slices; the backing arrays of all members x[a], 0 <= a < len(x)
			v := e.tr(call.Args[0])
			if v.Ty != nil {
				if outer, ok := v.Ty.Underlying().(*types.Slice); ok {
					if inner, ok := outer.Elem().Underlying().(*types.Slice); ok {
						hdr := c.rd(e.heapOf(c.hk(outer.Elem())), c.acc("sobj", v.T), "(+ "+c.acc("soff", v.T)+" a!each)")
						set := fmt.Sprintf("(exists ((a!each Int)) (and (<= 0 a!each) (< a!each %s) (> %s 0) (= o %s)))", c.acc("slen", v.T), c.acc("scap", hdr), c.acc("sobj", hdr))
						return []modItem{{sortKey: c.hk(inner.Elem()), objSet: set}}
					}
				}
			}
			e.errorf("each(%s): not a slice of slices", call.Args[0])
			return nil
		}
		if id, ok := call.Fun.(*EIdent); ok && id.Name == "pointee" && len(call.Args) == 1 {
			// pointee(x): x is an interface value built at the call site from a typed
			// pointer (binary.Read(r, order, &v)): the cell it points to and, for a
			// pointer to a slice, the slice's backing array. Resolved statically.
			v := e.tr(call.Args[0])
			if v.Boxed == nil {
				e.errorf("pointee(%s): the argument is not built from a typed pointer at this call site", call.Args[0])
				return nil
			}
			pt, ok := v.Boxed.Ty.Underlying().(*types.Pointer)
			if !ok {
				return nil // a non-pointer value: nothing the callee can write through
			}
			if sl, ok := pt.Elem().Underlying().(*types.Slice); ok {
				// a pointer to a slice: the elements are filled in, the header stays
				hdr := c.rd(e.heapOf(c.hk(pt.Elem())), c.acc("pobj", v.Boxed.T), c.acc("pidx", v.Boxed.T))
				return []modItem{{sortKey: c.hk(sl.Elem()), obj: c.acc("sobj", hdr)}}
			}
			return []modItem{{sortKey: c.hk(pt.Elem()), obj: c.acc("pobj", v.Boxed.T), idx: c.acc("pidx", v.Boxed.T)}}
		}
	}
	v := e.tr(m)
	if v.Ty == nil {
		return nil
	}
	switch tt := v.Ty.Underlying().(type) {
	case *types.Pointer:
		el := tt.Elem()
		if at, ok := el.Underlying().(*types.Array); ok {
			el = at.Elem()
		}
		if deref {
			if _, isArr := tt.Elem().Underlying().(*types.Array); !isArr {
				return []modItem{{sortKey: c.hk(el), obj: c.acc("pobj", v.T), idx: c.acc("pidx", v.T)}}
			}
		}
		return []modItem{{sortKey: c.hk(el), obj: c.acc("pobj", v.T)}}
	case *types.Slice:
		return []modItem{{sortKey: c.hk(tt.Elem()), obj: c.acc("sobj", v.T)}}
	case *types.Map:
		k := c.mapKey(v.Ty)
		return []modItem{{sortKey: k + "!dom", obj: v.T}, {sortKey: k + "!val", obj: v.T}}
	}
	e.errorf("unsupported modifies item %s", m)
	return nil
}

// specEnv builds the environment for clauses evaluated inside the function.
func (fr *frame) specEnv(st *State, li *loopInfo) *SpecEnv {
	return &SpecEnv{c: fr.c, fr: fr, vars: map[string]Val{}, st: st, old: fr.entry, oldAlloc: "alloc0", pkg: funcPkg(fr.fn), loop: li}
}

func isRefType(t types.Type) bool {
	switch tt := t.Underlying().(type) {
	case *types.Slice, *types.Pointer, *types.Interface, *types.Map, *types.Signature:
		return true
	case *types.Struct:
		for i := 0; i < tt.NumFields(); i++ {
			if isRefType(tt.Field(i).Type()) {
				return true
			}
		}
	}
	return false
}

// oldRooted: the term mentions only function-entry values (parameters,
// captured cells, globals, entry heaps, bound variables).
func (c *Ctx) oldRooted(t string, depth int) bool {
	if depth > 6 {
		return false
	}
	i := 0
	for i < len(t) {
		ch := t[i]
		if !(ch == '_' || ch >= 'a' && ch <= 'z' || ch >= 'A' && ch <= 'Z') {
			i++
			continue
		}
		j := i
		for j < len(t) && (t[j] == '_' || t[j] == '!' || t[j] >= 'a' && t[j] <= 'z' || t[j] >= 'A' && t[j] <= 'Z' || t[j] >= '0' && t[j] <= '9') {
			j++
		}
		id := t[i:j]
		i = j
		if !strings.Contains(id, "!") {
			// generated names always carry '!'; everything else is a symbol of the
			// signature, an entry heap (H_.._0), alloc0, a bound variable or an accessor
			if strings.HasPrefix(id, "H_") && !strings.HasSuffix(id, "_0") {
				return false
			}
			continue
		}
		if strings.HasPrefix(id, "p_") || strings.HasPrefix(id, "fv_") {
			continue
		}
		if d, ok := c.defs[id]; ok {
			if !c.oldRooted(d, depth+1) {
				return false
			}
			continue
		}
		return false
	}
	return true
}

// heapForSpec chooses the heap passed to a recursive spec function. When the
// current heap differs from the entry heap but every reference argument is a
// function-entry value and the function does not claim to modify that heap,
// the entry heap is passed instead, justified by a proved frame obligation
// (pre-existing objects are unchanged at this point).
func (e *SpecEnv) heapForSpec(key string, si *specInst, refArgs []string) string {
	c := e.c
	if e.heapParams != nil || e.fr == nil {
		return e.heapOf(key)
	}
	cur := c.heap(e.st, key)
	entry := c.heap(e.fr.entry, key)
	if cur == entry {
		return cur
	}
	for _, m := range e.fr.modObjs {
		if m.sortKey == key {
			return cur
		}
	}
	if strings.HasPrefix(key, "map!") {
		return cur
	}
	for _, a := range refArgs {
		if !c.objOld(a, 0) {
			return cur
		}
	}
	// every reference argument is entry-time data: read it in the entry heap. If the
	// current heap is not already known to agree with the entry heap on pre-existing
	// objects, that agreement is an obligation ("frame") at this point.
	if c.oldSame[cur] != entry {
		fk := "framept|" + key + "|" + cur
		if !e.fr.frameDone[fk] {
			e.fr.frameDone[fk] = true
			ft := frameFormula(key, cur, entry, "0", "alloc0", nil, false)
			e.fr.oblige("frame", sanitize(key), nil, ft, "pre-existing objects of sort "+key+" are unchanged at this point (lets specs about the inputs be read in the entry heap)", 0)
		}
		c.oldSame[cur] = entry
	}
	return entry
}

// absolutizeIndex rewrites a quantified body that indexes a slice at
// (ix OFF q_k) so that the bound variable is the absolute position
// j = OFF + k: (ix OFF q_k) becomes q_k and other occurrences of q_k become
// (- q_k OFF). The formulas are equivalent (k ranges over all integers, and
// ix(a,b) = a+b); the rewritten one has the pattern-friendly shape
// (select A q_k), which E-matching instantiates at every read of A.
func absolutizeIndex(body string, vars []Param, c *Ctx) string {
	for _, p := range vars {
		if p.T.Kind != "name" || p.T.Name != "int" {
			continue
		}
		v := "q_" + p.Name
		needle := " " + v + ")"
		// find "(ix OFF q_k)"
		idx := -1
		var off string
		search := 0
		for {
			i := strings.Index(body[search:], "(ix ")
			if i < 0 {
				break
			}
			i += search
			// parse balanced term starting at i
			depth := 0
			end := -1
			for k := i; k < len(body); k++ {
				if body[k] == '(' {
					depth++
				} else if body[k] == ')' {
					depth--
					if depth == 0 {
						end = k
						break
					}
				}
			}
			if end < 0 {
				break
			}
			term := body[i : end+1]
			if strings.HasSuffix(term, needle) {
				o := strings.TrimSpace(term[len("(ix ") : len(term)-len(needle)])
				if !containsIdent(o, v) && balanced(o) {
					idx = i
					off = o
					break
				}
			}
			search = i + 4
		}
		if idx < 0 {
			continue
		}
		target := "(ix " + off + " " + v + ")"
		marker := "@@ABS@@"
		body = strings.ReplaceAll(body, target, marker)
		body = replaceIdent(body, v, "(- "+v+" "+off+")")
		body = strings.ReplaceAll(body, marker, v)
	}
	return body
}

func balanced(s string) bool {
	d := 0
	for _, ch := range s {
		if ch == '(' {
			d++
		} else if ch == ')' {
			d--
			if d < 0 {
				return false
			}
		}
	}
	return d == 0
}

func isIdentChar(ch byte) bool {
	return ch == '_' || ch == '!' || ch == '.' || ch >= 'a' && ch <= 'z' || ch >= 'A' && ch <= 'Z' || ch >= '0' && ch <= '9'
}

func containsIdent(s, id string) bool {
	i := 0
	for {
		j := strings.Index(s[i:], id)
		if j < 0 {
			return false
		}
		j += i
		before := j == 0 || !isIdentChar(s[j-1])
		after := j+len(id) >= len(s) || !isIdentChar(s[j+len(id)])
		if before && after {
			return true
		}
		i = j + len(id)
	}
}

func replaceIdent(s, id, repl string) string {
	var b strings.Builder
	i := 0
	for {
		j := strings.Index(s[i:], id)
		if j < 0 {
			b.WriteString(s[i:])
			return b.String()
		}
		j += i
		before := j == 0 || !isIdentChar(s[j-1])
		after := j+len(id) >= len(s) || !isIdentChar(s[j+len(id)])
		b.WriteString(s[i:j])
		if before && after {
			b.WriteString(repl)
		} else {
			b.WriteString(id)
		}
		i = j + len(id)
	}
}

// specFrameAxiom: a recursive spec function applied to pre-existing data has
// the same value in the current heaps as in the entry heaps, provided the
// function's frame holds at this point (obligation "frame") — the function
// reads only cells reachable from its arguments, all of which existed at
// entry and are unchanged. Emitted once per (function, heap tuple).
func (e *SpecEnv) specFrameAxiom(sf *SpecFunc, si *specInst, cur []string) {
	c := e.c
	fr := e.fr
	var entry []string
	differs := false
	for i, k := range si.heaps {
		en := c.heap(fr.entry, k)
		entry = append(entry, en)
		if en != cur[i] {
			differs = true
			for _, m := range fr.modObjs {
				if m.sortKey == k {
					return
				}
			}
		}
	}
	if !differs {
		return
	}
	key := "specframe|" + si.name + "|" + strings.Join(cur, ",")
	if fr.frameDone[key] {
		return
	}
	fr.frameDone[key] = true
	var binders, names, guard []string
	for i, p := range sf.Params {
		t := si.params[i]
		n := "a_" + p.Name
		binders = append(binders, fmt.Sprintf("(%s %s)", n, c.sortOf(t)))
		names = append(names, n)
		switch t.Underlying().(type) {
		case *types.Slice:
			guard = append(guard, fmt.Sprintf("(< (sobj %s) alloc0)", n))
		case *types.Pointer:
			guard = append(guard, fmt.Sprintf("(< (pobj %s) alloc0)", n))
		default:
			if isRefType(t) {
				return // interfaces/maps: no shallow guard available
			}
		}
	}
	for i, k := range si.heaps {
		if entry[i] == cur[i] {
			continue
		}
		fk := "framept|" + k + "|" + cur[i]
		if !fr.frameDone[fk] {
			fr.frameDone[fk] = true
			ft := frameFormula(k, cur[i], entry[i], "0", "alloc0", nil, strings.HasPrefix(k, "map!"))
			fr.oblige("frame", sanitize(k), nil, ft, "pre-existing objects of sort "+k+" are unchanged at this point (lets specs about the inputs be read in the entry heap)", 0)
		}
	}
	fuelArg, fuelBinder := "", ""
	if si.rec {
		fuelArg, fuelBinder = "fu ", "(fu Fuel) "
		c.declOnce("fuel", "(declare-datatypes ((Fuel 0)) (((FZ) (FS (fpred Fuel)))))")
	}
	lhs := "(" + si.name + " " + fuelArg + strings.Join(append(append([]string{}, names...), cur...), " ") + ")"
	rhs := "(" + si.name + " " + fuelArg + strings.Join(append(append([]string{}, names...), entry...), " ") + ")"
	fr.assumeR(fmt.Sprintf("(forall (%s%s) (! (=> %s (= %s %s)) :pattern (%s) :pattern (%s)))", fuelBinder, strings.Join(binders, " "), and(guard...), lhs, rhs, lhs, rhs))
	c.assumed["meta: recursive spec functions read only cells reachable from their arguments (frame axiom for "+sf.Name+")"] = true
}

// specCallFrame: across a call whose callee modifies nothing of a sort, a
// recursive/opaque spec function applied to data that existed before the call
// has the same value in the post-call heaps as in the pre-call heaps.
func (e *SpecEnv) specCallFrame(sf *SpecFunc, si *specInst, cur []string, depth int) {
	c := e.c
	fr := e.fr
	if depth > 4 {
		return
	}
	var info heapPrevInfo
	found := false
	prev := append([]string{}, cur...)
	for i, h := range cur {
		hp, ok := c.heapPrev[h]
		if !ok {
			continue
		}
		if !found {
			info, found = hp, true
		}
		if hp.preAlloc == info.preAlloc {
			prev[i] = hp.prev
		}
	}
	if !found {
		return
	}
	key := "speccall|" + si.name + "|" + strings.Join(cur, ",")
	if fr.frameDone[key] {
		return
	}
	fr.frameDone[key] = true
	var binders, names, guard []string
	for i, p := range sf.Params {
		t := si.params[i]
		n := "a_" + p.Name
		binders = append(binders, fmt.Sprintf("(%s %s)", n, c.sortOf(t)))
		names = append(names, n)
		switch t.Underlying().(type) {
		case *types.Slice:
			guard = append(guard, fmt.Sprintf("(< (sobj %s) %s)", n, info.preAlloc))
		case *types.Pointer:
			guard = append(guard, fmt.Sprintf("(< (pobj %s) %s)", n, info.preAlloc))
		default:
			if isRefType(t) {
				return
			}
		}
	}
	fuelArg, fuelBinder := "", ""
	if si.rec {
		fuelArg, fuelBinder = "fu ", "(fu Fuel) "
		c.declOnce("fuel", "(declare-datatypes ((Fuel 0)) (((FZ) (FS (fpred Fuel)))))")
	}
	lhs := "(" + si.name + " " + fuelArg + strings.Join(append(append([]string{}, names...), cur...), " ") + ")"
	rhs := "(" + si.name + " " + fuelArg + strings.Join(append(append([]string{}, names...), prev...), " ") + ")"
	c.assume(implies(info.reach, fmt.Sprintf("(forall (%s%s) (! (=> %s (= %s %s)) :pattern (%s) :pattern (%s)))", fuelBinder, strings.Join(binders, " "), and(guard...), lhs, rhs, lhs, rhs)))
	c.assumed["meta: spec functions read only cells reachable from their arguments (call frame axiom for "+sf.Name+")"] = true
	e.specCallFrame(sf, si, prev, depth+1)
}

// constFold evaluates a literal-only arithmetic expression containing at least
// one float literal in float64 arithmetic.
func constFold(x Expr) (float64, bool) {
	hasFloat := false
	var ev func(e Expr) (float64, bool)
	ev = func(e Expr) (float64, bool) {
		switch t := e.(type) {
		case *EFloat:
			hasFloat = true
			v, err := strconv.ParseFloat(t.V, 64)
			return v, err == nil
		case *EInt:
			v, err := strconv.ParseFloat(t.V, 64)
			return v, err == nil
		case *EUnary:
			if t.Op == "-" {
				v, ok := ev(t.X)
				return -v, ok
			}
		case *EBinary:
			a, ok1 := ev(t.X)
			b, ok2 := ev(t.Y)
			if !ok1 || !ok2 {
				return 0, false
			}
			switch t.Op {
			case "+":
				return a + b, true
			case "-":
				return a - b, true
			case "*":
				return a * b, true
			case "/":
				if b != 0 {
					return a / b, true
				}
			}
		}
		return 0, false
	}
	if b, ok := x.(*EBinary); !ok || (b.Op != "+" && b.Op != "-" && b.Op != "*" && b.Op != "/") {
		return 0, false
	}
	v, ok := ev(x)
	return v, ok && hasFloat
}

// elemKeysDiffer: same sort and heap key for the value itself, but the cells it
// points to live in different heaps (e.g. []Path vs []LineString).
func elemKeysDiffer(c *Ctx, a, b types.Type) bool {
	switch x := a.Underlying().(type) {
	case *types.Slice:
		if y, ok := b.Underlying().(*types.Slice); ok {
			return c.hk(x.Elem()) != c.hk(y.Elem()) || elemKeysDiffer(c, x.Elem(), y.Elem())
		}
	case *types.Pointer:
		if y, ok := b.Underlying().(*types.Pointer); ok {
			return c.hk(x.Elem()) != c.hk(y.Elem()) || elemKeysDiffer(c, x.Elem(), y.Elem())
		}
	}
	return false
}

// ghostObj: the object id a ghost field hangs on.
func (e *SpecEnv) ghostObj(x Expr) (string, bool) {
	c := e.c
	v := e.tr(x)
	if v.Ty == nil {
		return "", false
	}
	switch v.Ty.Underlying().(type) {
	case *types.Interface:
		c.box(types.NewPointer(tInt), "")
		return fmt.Sprintf("(pobj (unbox_Ptr (ival %s)))", v.T), true
	case *types.Pointer:
		return c.acc("pobj", v.T), true
	case *types.Slice:
		return c.acc("sobj", v.T), true
	}
	return "", false
}
