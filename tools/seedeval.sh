#!/bin/bash
# usage: seedeval.sh <PROP> <srcdir with patch.diff demo_test.go meta.json> <name>
# 1. confirms in a scratch worktree that the mutation compiles, passes the existing tests, and that the
#    demo fails with it and passes without it; 2. applies it to /repo, runs the quick check, undoes it;
# 3. stores everything under /verif/seeded/<name>/ with the outcome in meta.json.
set -u
PROP=$1; SRC=$2; NAME=$3
export GOFLAGS=-mod=mod GOPROXY=off GOSUMDB=off GOTOOLCHAIN=local
WT=/tmp/sv_$NAME
OUT=/verif/seeded/$NAME
mkdir -p $OUT
cp $SRC/patch.diff $OUT/patch.diff; cp $SRC/demo_test.go $OUT/demo_test.go
PKGDIR=$(python3 -c "import json;print(json.load(open('$SRC/meta.json'))['demo_pkg_dir'])")
TNAME=$(python3 -c "import json;print(json.load(open('$SRC/meta.json'))['demo_test_name'])")
git -C /repo worktree remove --force $WT 2>/dev/null; rm -rf $WT
git -C /repo worktree add -q --detach $WT HEAD || exit 2
cp /repo/go.sum $WT/go.sum
res_apply=ok; (cd $WT && git apply $OUT/patch.diff) || res_apply=FAILED
tests=ok; (cd $WT && go test -vet=off -count=1 -timeout 10m . ./index/... ./encoding/... ./proj/... ./route/... ./op/... > $OUT/tests_with_mutation.log 2>&1) || tests=FAILED
cp $OUT/demo_test.go $WT/$PKGDIR/zz_demo_test.go
demo_mut=unexpected-pass; (cd $WT && go test -vet=off -count=1 -timeout 120s -run "^$TNAME\$" ./$PKGDIR > $OUT/demo_with_mutation.log 2>&1) || demo_mut=fails
(cd $WT && git apply -R $OUT/patch.diff)
demo_clean=unexpected-fail; (cd $WT && go test -vet=off -count=1 -timeout 120s -run "^$TNAME\$" ./$PKGDIR > $OUT/demo_clean.log 2>&1) && demo_clean=passes
rm -f $WT/$PKGDIR/zz_demo_test.go
# run the check on the scratch worktree with the mutation applied (never on /repo, so that checks
# running on /repo at the same time are not disturbed); -noevidence: the evidence files describe /repo
detected=no; status=""
if (cd $WT && git apply $OUT/patch.diff); then
  /verif/bin/govc check $PROP -tier quick -repo $WT -verif /verif -noevidence > $OUT/check_with_mutation.log 2>&1; rc=$?
  [ $rc -eq 1 ] && detected=yes
  status="exit=$rc"
else
  status="patch-does-not-apply-to-repo"
fi
git -C /repo worktree remove --force $WT; rm -rf $WT
python3 - <<P
import json
m=json.load(open('$SRC/meta.json'))
m.update({"confirmed":{"patch_applies":"$res_apply","existing_tests_with_mutation":"$tests","demo_with_mutation":"$demo_mut","demo_on_clean_tree":"$demo_clean"},
 "check":{"property":"$PROP","cmd":"/verif/check $PROP quick","detected":"$detected","status":"$status",
  "violations":[l.strip()[:300] for l in open('$OUT/check_with_mutation.log') if l.startswith('VIOLATION')][:8] if "$status".startswith('exit') else []}})
json.dump(m,open('$OUT/meta.json','w'),indent=1)
print("$NAME", m["confirmed"], "detected=$detected", "$status")
P
