#!/usr/bin/env python3
"""Mechanical extraction of proj4js 2.3.12 reference material into govc spec text.

usage: js2spec.py <repo>/proj/proj4js-2.3.12/lib <out.spec>

What is accepted (anything else makes the extractor fail loudly):
  * common/<name>.js helpers whose body is a sequence of
        var a = e;   a = e;   var a;   if (c) { assignments } [else { assignments }]
        if (c) { ... return e; } else { ... return e; }      return e;
    with `var NAME = <expr>;` constants and `require('./x')` imports at module level.
    They become   spec js_<name>(params) float64 = <let/ternary expression>.
    JS numbers are doubles: every integer literal is emitted as a real literal, so that
    e.g. 35 / 3072 is a real quotient (the Go port's untyped-constant division is not).
  * constants/{Ellipsoid,Datum,PrimeMeridian,units}.js object literals -> tables
    spec js_tab_<table>_<key>_<field>() float64  (numeric fields only).
Loops and object state (phi2z, imlfn, projections) are NOT extracted here.
"""
import re, sys, os, json

HELPERS = ["e0fn", "e1fn", "e2fn", "e3fn", "mlfn", "msfnz", "tsfnz", "qsfnz", "sign", "adjust_lon", "adjust_lat", "asinz"]

NUM = re.compile(r'\d+\.\d*(?:[eE][+-]?\d+)?|\.\d+(?:[eE][+-]?\d+)?|\d+[eE][+-]?\d+|\d+')

def conv_expr(e, consts, imports):
    e = e.strip()
    for k, v in consts.items():
        e = re.sub(r'\b%s\b' % re.escape(k), '(' + v + ')', e)
    e = e.replace('Math.PI', 'math.Pi')
    for f in ['sin', 'cos', 'tan', 'asin', 'acos', 'atan', 'atan2', 'sqrt', 'abs', 'pow', 'log', 'exp']:
        e = e.replace('Math.%s(' % f, f + '(')
    if 'Math.' in e:
        raise SystemExit('unsupported Math member in: ' + e)
    for imp in imports:
        e = re.sub(r'\b%s\(' % imp, 'js_%s(' % imp, e)
    def num(m):
        s = m.group(0)
        # do not touch digits that are part of identifiers (e0, e1, x2 ...)
        st = m.start()
        if st > 0 and (e[st-1].isalpha() or e[st-1] == '_'):
            return s
        if re.fullmatch(r'\d+', s):
            return s + '.0'
        return s
    out = []
    last = 0
    for m in NUM.finditer(e):
        out.append(e[last:m.start()])
        out.append(num(m))
        last = m.end()
    out.append(e[last:])
    return ''.join(out)

def split_statements(body):
    """very small JS statement splitter for the accepted subset"""
    stmts = []
    i = 0
    body = body.strip()
    while i < len(body):
        if body[i].isspace():
            i += 1
            continue
        if body.startswith('if', i) and re.match(r'if\s*\(', body[i:]):
            j = body.index('(', i)
            d = 0
            k = j
            while True:
                if body[k] == '(':
                    d += 1
                elif body[k] == ')':
                    d -= 1
                    if d == 0:
                        break
                k += 1
            cond = body[j+1:k]
            k += 1
            while body[k].isspace():
                k += 1
            if body[k] != '{':
                raise SystemExit('if without block: ' + body[i:i+60])
            b1, k = block(body, k)
            rest = body[k:].lstrip()
            b2 = None
            if rest.startswith('else'):
                k = body.index('else', k) + 4
                while body[k].isspace():
                    k += 1
                if body[k] != '{':
                    raise SystemExit('else without block')
                b2, k = block(body, k)
            stmts.append(('if', cond, b1, b2))
            i = k
            continue
        j = body.index(';', i)
        stmts.append(('simple', body[i:j].strip()))
        i = j + 1
    return stmts

def block(body, k):
    d = 0
    s = k
    while True:
        if body[k] == '{':
            d += 1
        elif body[k] == '}':
            d -= 1
            if d == 0:
                return body[s+1:k], k + 1
        k += 1

def returns(stmts):
    return any(s[0] == 'simple' and s[1].startswith('return') for s in stmts) or any(s[0] == 'if' and returns(split_statements(s[2])) for s in stmts)

def to_expr(stmts, consts, imports):
    if not stmts:
        raise SystemExit('fell off the end of a function')
    s = stmts[0]
    rest = stmts[1:]
    if s[0] == 'simple':
        t = s[1]
        if t.startswith('return'):
            return '(' + conv_expr(t[len('return'):], consts, imports) + ')'
        m = re.match(r'(?:var\s+)?(\w+)\s*=\s*(.*)$', t, re.S)
        if m:
            return '(let %s = %s in %s)' % (m.group(1), conv_expr(m.group(2), consts, imports), to_expr(rest, consts, imports))
        if re.match(r'var\s+\w+$', t):
            return to_expr(rest, consts, imports)
        raise SystemExit('unsupported statement: ' + t)
    _, cond, b1, b2 = s
    c = conv_expr(cond, consts, imports)
    s1 = split_statements(b1)
    s2 = split_statements(b2) if b2 is not None else []
    if returns(s1) and (b2 is None or returns(s2)):
        e1 = to_expr(s1, consts, imports)
        e2 = to_expr(s2 if b2 is not None else rest, consts, imports)
        return '(%s ? %s : %s)' % (c, e1, e2)
    # assignment-only branches: v = c ? e : v
    assigned = {}
    for br, neg in ((s1, False), (s2, True)):
        for st in br:
            if st[0] != 'simple':
                raise SystemExit('nested control flow in assignment branch')
            m = re.match(r'(\w+)\s*=\s*(.*)$', st[1], re.S)
            if not m:
                raise SystemExit('unsupported statement in branch: ' + st[1])
            assigned.setdefault(m.group(1), [None, None])[1 if neg else 0] = conv_expr(m.group(2), consts, imports)
    inner = to_expr(rest, consts, imports)
    for v, (a, b) in assigned.items():
        inner = '(let %s = (%s ? (%s) : (%s)) in %s)' % (v, c, a if a is not None else v, b if b is not None else v, inner)
    return inner

def helper(libdir, name):
    src = open(os.path.join(libdir, 'common', name + '.js')).read()
    src = re.sub(r'//[^\n]*', '', src)
    consts = {}
    imports = []
    head, fn = src.split('module.exports', 1)
    for m in re.finditer(r'var\s+(\w+)\s*=\s*([^;]+);', head):
        rhs = m.group(2).strip()
        r = re.match(r"require\('\./(\w+)'\)", rhs)
        if r:
            imports.append(r.group(1))
            if m.group(1) != r.group(1):
                raise SystemExit('renamed import in ' + name)
        else:
            consts[m.group(1)] = conv_expr(rhs, {}, [])
    m = re.match(r'\s*=\s*function\s*\(([^)]*)\)\s*\{(.*)\}\s*;?\s*$', fn, re.S)
    if not m:
        raise SystemExit('unexpected module shape in ' + name)
    params = [p.strip() for p in m.group(1).split(',') if p.strip()]
    expr = to_expr(split_statements(m.group(2)), consts, imports)
    return '//@ spec js_%s(%s) float64 = %s' % (name, ', '.join(p + ' float64' for p in params), expr)

def js_objects(path):
    """exports.NAME = {...};  exports['NAME'] = {...};  exports.NAME = number;  -> ordered [(name, text)]"""
    src = open(path).read()
    out = []
    for m in re.finditer(r"exports(?:\.(\w+)|\['([^']+)'\])\s*=\s*(\{.*?\}|[^;{]+);", src, re.S):
        out.append((m.group(1) or m.group(2), re.sub(r'//[^\n]*', '', m.group(3)).strip()))
    if not out:
        raise SystemExit('no table entries found in ' + path)
    return out

def js_fields(text):
    """{a: 1, b: "x, y", c: 1200 / 3937} -> {'a': '1', 'b': '"x, y"', 'c': '1200 / 3937'}"""
    assert text.startswith('{') and text.endswith('}'), text
    body = text[1:-1]
    fields = {}
    for m in re.finditer(r'(\w+)\s*:\s*("(?:[^"\\]|\\.)*"|\'[^\']*\'|[^,]+)', body):
        v = m.group(2).strip()
        if v.startswith("'"):
            v = json.dumps(v[1:-1])  # single-quoted JS string -> double-quoted
        fields[m.group(1)] = v
    return fields

def lab(k):
    return re.sub(r'\W', '_', k)

def gostr(s):
    return json.dumps(s)

def num(s):
    """a JS numeric expression (literal or a quotient of literals) as a spec expression over doubles"""
    s = s.strip()
    if not re.fullmatch(r'[-+]?[\d.eE+-]+(\s*/\s*[\d.eE+-]+)?', s):
        raise SystemExit('unsupported numeric table value: ' + s)
    return conv_expr(s, {}, [])

def tables(libdir):
    """The four constant tables as one ensures clause per entry of the package initialiser's contract:
    the Go table has exactly the proj4js entries with the same values (a field proj4js leaves out is
    the zero value in the port)."""
    cdir = os.path.join(libdir, 'constants')
    L = ['', '# ---- constant tables (lib/constants/*.js): contract of the package initialiser', 'func init', '  prop C09', '  mode real']
    units = js_objects(os.path.join(cdir, 'units.js'))
    L.append('  ensures [units_no_other_entries] forall k string :: mapHas(units, k) ==> ' + ' || '.join('k == %s' % gostr(k) for k, _ in units))
    for k, t in units:
        f = js_fields(t)
        if set(f) != {'to_meter'}:
            raise SystemExit('unexpected unit fields: ' + t)
        L.append('  ensures [units_%s] mapHas(units, %s) && units[%s].to_meter == %s' % (lab(k), gostr(k), gostr(k), num(f['to_meter'])))
    pm = js_objects(os.path.join(cdir, 'PrimeMeridian.js'))
    L.append('  ensures [primeMeridian_no_other_entries] forall k string :: mapHas(primeMeridian, k) ==> ' + ' || '.join('k == %s' % gostr(k) for k, _ in pm))
    for k, t in pm:
        L.append('  ensures [primeMeridian_%s] mapHas(primeMeridian, %s) && primeMeridian[%s] == %s' % (lab(k), gostr(k), gostr(k), num(t)))
    el = js_objects(os.path.join(cdir, 'Ellipsoid.js'))
    L.append('  ensures [ellipsoidDefs_no_other_entries] forall k string :: mapHas(ellipsoidDefs, k) ==> ' + ' || '.join('k == %s' % gostr(k) for k, _ in el))
    for k, t in el:
        f = js_fields(t)
        if not set(f) <= {'a', 'b', 'rf', 'ellipseName'}:
            raise SystemExit('unexpected ellipsoid fields: ' + t)
        cl = ['mapHas(ellipsoidDefs, %s)' % gostr(k)]
        for fld in ('a', 'b', 'rf'):
            cl.append('ellipsoidDefs[%s].%s == %s' % (gostr(k), fld, num(f[fld]) if fld in f else '0.0'))
        cl.append('ellipsoidDefs[%s].ellipseName == %s' % (gostr(k), f.get('ellipseName', '""')))
        L.append('  ensures [ellipsoidDefs_%s] %s' % (lab(k), ' && '.join(cl)))
    da = js_objects(os.path.join(cdir, 'Datum.js'))
    L.append('  ensures [datumDefs_no_other_entries] forall k string :: mapHas(datumDefs, k) ==> ' + ' || '.join('k == %s' % gostr(k) for k, _ in da))
    for k, t in da:
        f = js_fields(t)
        if not set(f) <= {'towgs84', 'ellipse', 'datumName', 'nadgrids'}:
            raise SystemExit('unexpected datum fields: ' + t)
        cl = ['mapHas(datumDefs, %s)' % gostr(k)]
        nums = [x for x in json.loads(f['towgs84']).split(',')] if 'towgs84' in f else []
        cl.append('len(datumDefs[%s].towgs84) == %d' % (gostr(k), len(nums)))
        for i, x in enumerate(nums):
            cl.append('datumDefs[%s].towgs84[%d] == %s' % (gostr(k), i, num(x)))
        grids = json.loads(f['nadgrids']).split(',') if 'nadgrids' in f else []
        cl.append('len(datumDefs[%s].nadgrids) == %d' % (gostr(k), len(grids)))
        for i, x in enumerate(grids):
            cl.append('datumDefs[%s].nadgrids[%d] == %s' % (gostr(k), i, gostr(x)))
        cl.append('datumDefs[%s].ellipse == %s' % (gostr(k), f.get('ellipse', '""')))
        cl.append('datumDefs[%s].datumName == %s' % (gostr(k), f.get('datumName', '""')))
        L.append('  ensures [datumDefs_%s] %s' % (lab(k), ' && '.join(cl)))
    return L

def main():
    libdir, out = sys.argv[1], sys.argv[2]
    lines = ['# GENERATED by /verif/tools/js2spec.py from %s — do not edit' % libdir,
             'package github.com/ctessum/geom/proj', '']
    for h in HELPERS:
        lines.append(helper(libdir, h))
    lines += tables(libdir)
    open(out, 'w').write('\n'.join(lines) + '\n')

if __name__ == '__main__':
    main()
