#!/bin/bash
# Must-fail corpus: every stored seeded change must still be detected by the
# quick check of its property. Works on a scratch copy of /repo (never on /repo).
# usage: selftest.sh [ID-prefix ...]     e.g. selftest.sh C11 C12
set -u
export GOFLAGS=-mod=mod GOPROXY=off GOSUMDB=off GOTOOLCHAIN=local
SCR=$(mktemp -d /var/tmp/govc-selftest-XXXXXX)
trap 'rm -rf "$SCR"' EXIT
rsync -a --exclude .git /repo/ "$SCR/repo/"
(cd "$SCR/repo" && git init -q && git add -A >/dev/null 2>&1 && git -c user.email=x@x -c user.name=x commit -qm base >/dev/null 2>&1)
pass=0; fail=0; failed=""
for d in /verif/seeded/*/; do
  n=$(basename "$d"); p=${n%%_*}
  if [ $# -gt 0 ]; then m=0; for a in "$@"; do [[ $n == $a* ]] && m=1; done; [ $m = 1 ] || continue; fi
  (cd "$SCR/repo" && git checkout -q -- . && git apply "$d/patch.diff") || { echo "$n: patch does not apply"; fail=$((fail+1)); failed="$failed $n"; continue; }
  /verif/bin/govc check "$p" -tier quick -repo "$SCR/repo" -noevidence -noreplay > "$SCR/out.log" 2>&1; rc=$?
  if [ $rc -eq 1 ] && grep -q '^VIOLATION' "$SCR/out.log"; then pass=$((pass+1)); echo "$n: detected"; else fail=$((fail+1)); failed="$failed $n"; echo "$n: NOT detected (exit $rc)"; fi
done
echo "selftest: $pass detected, $fail missed:$failed"
[ $fail -eq 0 ]
