#!/bin/bash
# usage: seedrerun.sh <seed name> "<note>" — re-runs the quick check of the seed's property with the seed
# applied to /repo (which must be clean), keeps the first outcome in meta.json as check_first_run.
set -u
N=$1; NOTE=$2; P=${N%%_*}
/verif/tools/scratchcheck.sh $P /verif/seeded/$N/patch.diff /verif/seeded/$N/check_with_mutation_rerun.log; rc=$?
python3 - "$N" "$NOTE" "$rc" <<'P'
import json,sys
n,note,rc=sys.argv[1],sys.argv[2],int(sys.argv[3])
p='/verif/seeded/%s/meta.json'%n; m=json.load(open(p))
if 'check_first_run' not in m: m['check_first_run']=m['check']
v=[l.strip() for l in open('/verif/seeded/%s/check_with_mutation_rerun.log'%n) if l.startswith('VIOLATION')]
m['check']={'property':m['property'],'cmd':m['check_first_run']['cmd'],'detected':'yes' if rc==1 else 'no','status':'exit=%d'%rc,'violations':v,'note':note}
json.dump(m,open(p,'w'),indent=1)
print(n,'detected' if rc==1 else 'NOT detected','exit',rc)
P
