#!/bin/bash
# usage: harmlesseval.sh <PROP> <srcdir with patch.diff meta.json> <name>
# A behaviour-preserving change: the property still holds, so the check must not report a violation.
# Confirms in a scratch worktree that the change compiles and the existing tests pass, applies it to
# /repo, runs the quick check, undoes it, and stores the outcome under /verif/harmless/<name>/:
#   exit 0 = still proved; exit 2 = undecided (contract no longer matches the code: anchors, renamed
#   locals, a new helper without contract); exit 1 = FALSE ALARM (to be corrected).
set -u
PROP=$1; SRC=$2; NAME=$3
export GOFLAGS=-mod=mod GOPROXY=off GOSUMDB=off GOTOOLCHAIN=local
WT=/tmp/hv_$NAME
OUT=/verif/harmless/$NAME
mkdir -p $OUT
cp $SRC/patch.diff $OUT/patch.diff; cp $SRC/meta.json $OUT/meta_agent.json
git -C /repo worktree remove --force $WT 2>/dev/null; rm -rf $WT
git -C /repo worktree add -q --detach $WT HEAD || exit 2
cp /repo/go.sum $WT/go.sum
res_apply=ok; (cd $WT && git apply $OUT/patch.diff) || res_apply=FAILED
tests=ok; (cd $WT && go test -vet=off -count=1 -timeout 10m . ./index/... ./encoding/geojson ./encoding/hex ./encoding/shp ./encoding/wkb ./encoding/wkt ./proj/... ./route/... ./op/... > $OUT/tests_with_change.log 2>&1) || tests=FAILED
git -C /repo worktree remove --force $WT; rm -rf $WT
rc=-1
if [ $res_apply = ok ]; then /verif/tools/scratchcheck.sh $PROP $OUT/patch.diff $OUT/check_with_change.log; rc=$?; fi
python3 - "$OUT" "$PROP" "$res_apply" "$tests" "$rc" <<'P'
import json,sys
out,prop,ra,tests,rc=sys.argv[1:6]; rc=int(rc)
m=json.load(open(out+'/meta_agent.json'))
log=open(out+'/check_with_change.log').read() if rc>=0 else ''
m['confirmed']={'patch_applies':ra,'existing_tests_with_change':tests}
m['check']={'cmd':'/verif/check %s quick'%prop,'exit':rc,'outcome':{0:'proved',1:'FALSE ALARM',2:'undecided (engine error)'}.get(rc,'not run'),
 'violations':[l.strip() for l in log.splitlines() if l.startswith('VIOLATION')],
 'engine_errors':[l.strip()[:300] for l in log.splitlines() if l.startswith('ENGINE-ERROR')][:6]}
json.dump(m,open(out+'/meta.json','w'),indent=1)
import os; os.remove(out+'/meta_agent.json')
print(os.path.basename(out),ra,tests,'exit',rc,m['check']['outcome'],m.get('kind'))
P
