#!/bin/bash
# usage: harmlessrerun.sh <name> ["note"] — re-runs the quick check with the stored harmless change applied
set -u
N=$1; NOTE=${2:-}; P=${N%%_*}
/verif/tools/scratchcheck.sh $P /verif/harmless/$N/patch.diff /verif/harmless/$N/check_with_change_rerun.log; rc=$?
python3 - "$N" "$NOTE" "$rc" <<'P'
import json,sys
n,note,rc=sys.argv[1],sys.argv[2],int(sys.argv[3])
p='/verif/harmless/%s/meta.json'%n; m=json.load(open(p))
if 'check_first_run' not in m: m['check_first_run']=m['check']
log=open('/verif/harmless/%s/check_with_change_rerun.log'%n).read()
m['check']={'cmd':m['check_first_run']['cmd'],'exit':rc,'outcome':{0:'proved',1:'FALSE ALARM',2:'undecided (engine error)'}.get(rc,'?'),
 'violations':[l.strip() for l in log.splitlines() if l.startswith('VIOLATION')],
 'engine_errors':[l.strip()[:300] for l in log.splitlines() if l.startswith('ENGINE-ERROR')][:6],'note':note}
json.dump(m,open(p,'w'),indent=1)
print(n,'exit',rc,m['check']['outcome'],'(first run: %s)'%m['check_first_run']['outcome'])
P
