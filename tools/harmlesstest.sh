#!/bin/bash
# Must-not-alarm corpus: every stored behaviour-preserving change is applied to a scratch copy of /repo
# and the quick check of its property is run. exit 0 = still proved, exit 2 = undecided (the contract no
# longer fits the code), exit 1 = false alarm. Known residual false alarms are listed in DESIGN §4.6.
# usage: harmlesstest.sh [ID-prefix ...]     e.g. harmlesstest.sh C04_ C13_
set -u
export GOFLAGS=-mod=mod GOPROXY=off GOSUMDB=off GOTOOLCHAIN=local
SCR=$(mktemp -d /var/tmp/govc-harmless-XXXXXX)
trap 'rm -rf "$SCR"' EXIT
rsync -a --exclude .git /repo/ "$SCR/repo/"
(cd "$SCR/repo" && git init -q && git add -A >/dev/null 2>&1 && git -c user.email=x@x -c user.name=x commit -qm base >/dev/null 2>&1)
ok=0; und=0; fa=0; fas=""
for d in /verif/harmless/*/; do
  n=$(basename "$d"); p=${n%%_*}
  if [ $# -gt 0 ]; then m=0; for a in "$@"; do [[ $n == $a* ]] && m=1; done; [ $m = 1 ] || continue; fi
  (cd "$SCR/repo" && git checkout -q -- . && git clean -qfd && git apply "$d/patch.diff") || { echo "$n: patch does not apply"; und=$((und+1)); continue; }
  /verif/bin/govc check "$p" -tier quick -repo "$SCR/repo" -noevidence -noreplay > "$SCR/out.log" 2>&1; rc=$?
  case $rc in
    0) ok=$((ok+1)); echo "$n: proved";;
    1) fa=$((fa+1)); fas="$fas $n"; echo "$n: FALSE ALARM";;
    *) und=$((und+1)); echo "$n: undecided (exit $rc)";;
  esac
done
echo "harmless: $ok proved, $und undecided, $fa false alarms:$fas"
