#!/usr/bin/env python3
"""Regenerates /verif/MANIFEST.json from the table below."""
import json, subprocess, os

CLAIMED = {
 "C04": dict(
  text="Deductive proof (govc: go/ssa -> SMT-LIB, z3/cvc5) of contracts on the real functions: every Bounds()/Len() equals a fold spec over the stored vertices in exact IEEE-754 (SMT FP theory, incl. -0 and +-Inf); the box predicates Extend/Overlaps/Empty/box-box Intersection against point-set specs in extended reals (+-Inf and NaN modelled, signed zero not distinguished: they only compare); and the step contract of every slice-shaped iterator (yields flatAt(g,pos), pos+1, never out of range while pos < Len) with inductive loop invariants and termination measures; unbounded in sizes and values.",
  note="Trusted: govc translation (A-ENGINE), solvers (A-SMT), math.Min/Max per Go doc, int as mathematical integers (A-INT). History quantifier (n calls of the iterator) by induction over the proved one-step contract (paper, A-HIST). Not under contract: the step function of GeometryCollection's iterator (it drives inner iterators through dynamically dispatched closures; only creation, Len and member indexing are proved) and GeometryCollection.Bounds; 'fold of min/max = least enclosing box' is not a separate lemma.",
  design="DESIGN.md §3 C04"),
}

CLAIMED["C15"] = dict(
  text="Deductive proof (govc) that every Similar method equals its tolerance spec: point/multipoint/linestring/bounds are true exactly for equal type, equal length and |dx|,|dy| < tol at every vertex; the four greedy-matching methods (MultiLineString, MultiPolygon, Polygon rings, GeometryCollection) are false on type mismatch and on different member counts, never index out of range (matched-index bookkeeping proved with loop invariants over the in-place removal), MultiLineString additionally matches every member to some member of the other side; minPt is the first lexicographically least vertex; ringSimilar never panics. Symmetry/displacement/perturbation consequences are machine-checked lemmas over the specs. Real arithmetic.",
  note="Trusted: A-ENGINE, A-SMT, A-INT, A-REAL (float64 subtraction/abs/compare as exact reals: the tolerance comparison has no rounding model). Not decided: bijectivity of the greedy matching (completeness under unambiguous inputs), rotation invariance of ringSimilar as a functional spec (only safety and length are proved), symmetry of the four matching methods. interface Geom.Similar is used with a nil-*Bounds precondition on collection members.",
  design="DESIGN.md §3 C15")

CLAIMED["C13"] = dict(
  text="Deductive proof (govc) on the real simplify.go/intersection.go: simplifyCurve terminates (lexicographic measures on all four nested loops), never indexes out of range, keeps first and last vertex, returns a fresh slice no longer than the input and leaves the input untouched; every committed chord (i,j-1) and the closing chord have all skipped vertices within tol of the chord (distPS, the transcribed point-segment distance, which distPointToSegment is proved to compute) and every committed inner chord was tested by segMakesNotSimple against kept output, remaining input and the other curves; segMakesNotSimple is proved equal to its quantified spec (some non-endpoint-sharing segment with findIntersection count > 0), findIntersection's count equals its transcribed spec; the four Simplify methods keep type, member count and per-member endpoints. Real arithmetic.",
  note="Trusted: A-ENGINE, A-SMT, A-INT, A-REAL; A-SIMPLE: 'validated chords over a simple input give a simple output' and 'fiN > 0 iff the segments meet' are geometry outside the proof (sufficient-condition obligations). Order-preserving-subsequence is not stated as a postcondition (needs a ghost index map); it is covered only through the per-chord assertions. Known finding (listed, replayed): the closing chord is not tested for intersections.",
  design="DESIGN.md §3 C13")

CLAIMED["C02"] = dict(
  text="Deductive proof (govc, extended-real arithmetic with IEEE division by zero): pointOnSegment is exactly 'p in the segment's coordinate ranges and collinear' (except p equal to the first endpoint of a non-vertical segment); rayIntersectsSegment equals the half-open crossing rule (lo.Y <= p.Y < hi.Y and p strictly left of the upward edge) for every point whose height differs from both endpoint heights and for the top-vertex height, its nudge loop terminates; pointInPolygon returns OnEdge iff some considered ring (>= 3 vertices, envelope containing the point) has a segment (incl. the implicit closing one) reporting on-segment, and otherwise Inside iff the XOR over considered rings of the per-ring crossing parity; pointInPolygonal / Point.Within combine member polygons first-OnEdge-wins then even-odd; MultiPoint and LineString Within are Outside iff some vertex is Outside. Lemmas (machine-checked by induction) identify the structured parity with the crossing-number parity of the half-open rule for points in general height.",
  note="Trusted: A-ENGINE, A-SMT, A-INT, A-REAL (no rounding; signed zero not modelled), determinism of rayIntersectsSegment/pointOnSegment as functions of their arguments (definitional abstraction rayRes/posRes), 'odd crossing number = inside' (mathematics). Not decided: the lower-vertex height case of rayIntersectsSegment (needs the size of the Nextafter step, A-NUDGE); harmlessness of the bounding-box skip is mirrored in the spec (considered), not proved separately; MultiLineString.Within and Polygon.Within (reflect.DeepEqual) are not under contract; *Bounds as polygonal argument gets safety only.",
  design="DESIGN.md §3 C02")

CLAIMED["C03"] = dict(
  text="Deductive proof (govc, real arithmetic): signedarea and op.area equal the shoelace sum (closing term + prefix sum) / 2; area() returns +-|shoelace|/2 or 0 and exactly |shoelace|/2 for a single ring, never panics and leaves its inputs alone (the in-place removals act on fresh copies); Polygon.Area of a single ring is |shoelace|/2, MultiPolygon.Area is non-negative; Polygon.Centroid of closed rings equals (sum of ring moment/(6 a_r) * a_r) / (sum a_r) with a_r the signed ring area, skips empty rings and never writes into the caller's rings; MultiPolygon.Centroid weights, per ring, the winding-independent ring centroid moment/(6*signed area) by area(); LineString/MultiLineString Length are the sums of segment lengths, LineString.Distance is the minimum over segments of the closed-form point-segment distance that distPointToSegment is proved to compute; Point.Buffer's k-th vertex is p + radius*(cos,sin)(k*2pi/n), with panics exactly for n<3 or radius<0; Bounds.Area/Centroid.",
  note="Trusted: A-ENGINE, A-SMT, A-INT, A-REAL (no rounding: the relative-tolerance clause for arbitrary floats is not decided); 'shoelace = area', 'first moments/(6A) = centroid' and 'three-case projection formula = minimum distance' are mathematics (the latter stated as two axioms); sin/cos uninterpreted. Not decided: hole detection semantics of area() beyond sign/magnitude, invariance under per-ring rotation/reversal (orbit lemmas not mechanised), op.Centroid/op.Distance.",
  design="DESIGN.md §3 C03")

CLAIMED["C10"] = dict(
  text="Deductive proof (govc): for an abstract Transformer (a total deterministic function TX/TY/TE of the func value and its arguments that leaves the caller's memory alone) every Transform method returns the receiver itself for a nil transformer, otherwise a fresh geometry of the same type and shape whose k-th vertex is bit-identically (TX,TY) of the k-th input vertex (Point, MultiPoint, LineString, Polygon, MultiLineString by postcondition; MultiPolygon per stored member by assertion; *Bounds becomes the 4-corner polygon), returns nil plus the transformer's error of the first failing vertex, never panics and modifies nothing pre-existing; GeometryCollection dispatches through the interface contract. On the proj side the closure built by NewTransform is proved never to assign its captured source/dest variables, to keep Name/Axis/ToMeter/FromGreenwich/datum of both references, to call only non-nil transformers and adjust_axis within bounds; adjust_axis is proved safe for 2- and 3-element points.",
  note="Trusted: A-ENGINE, A-SMT, A-INT; the history quantifier (any number of calls, any order, interleaved with other transformers) follows by induction from the proved one-call contract (A-HIST, paper); trusted contracts (listed in the evidence): (*SR).Equal (reflect), Parse/registry, (*SR).Transformers (projection constructors normalise NaN defaults, idempotent), datumTransform; the closure's frame on SR objects other than source/dest is not claimed (it normalises the shared WGS84 definition).",
  design="DESIGN.md §3 C10")

CLAIMED["C01"] = dict(
  text="Deductive proof (govc) of the geom-side wrapper layer of the boolean operations against an abstract region algebra: toPolyClip copies every ring vertex-for-vertex (bit-identical), polyClipToPolygon returns each contour closed (first vertex repeated last), Polygon.op / MultiPolygon.op pass the receiver's rings and ALL polygons of the argument (prefix-fold over Polygons()) and the requested operation to the clipper, so that region(result) == OP(region(receiver), region(argument)) for the 8 Intersection/Union/XOr/Difference methods of Polygon and MultiPolygon and the 3 Union/XOr/Difference methods of *Bounds, with closed rings; the interface contract of Polygons() is proved for all three implementations; (*Bounds).Intersection is proved exact for box-box (nil iff the common rectangle has no area, else the common rectangle, in extended reals) and for other arguments returns nil, the argument itself or the clipped rectangle.",
  note="Trusted (the large base of this property): the external sweep-line clipper polyclip-go (Construct: region(result) == OP(region(subject), region(clipping)), non-empty contours) — /verif/contracts/external/polyclip.spec; A-REGION axioms (a region depends only on ring contents; closing a ring keeps its region; concatenating contour lists combines regions by rCat); regions are uninterpreted ids of slice contents at evaluation time (inputs/results are not mutated afterwards); A-ENGINE, A-SMT, A-INT. Not decided: correctness of the containment/no-overlap shortcuts of (*Bounds).Intersection as point sets; the XOR-of-box-disjoint-operands table entry of the dependency.",
  design="DESIGN.md §3 C01")
CLAIMED["C14"] = dict(
  text="Deductive proof (govc) of the Clip wrappers: LineString.Clip passes the line as the single contour of the subject and MultiLineString.Clip every member as its own contour (header-identical, in order), the polygonal operand goes through the same proved conversion as in C01, the operation is CLIPLINE (region(pieces) == CLIPLINE(region(line), region(polygon)) by the assumed clipper contract), every returned piece is the clipper's contour without the closing vertex that polyClipToPolygon appends (slice of the same array, length-1, no index out of range since contours are non-empty), the result is a fresh MultiLineString and nothing pre-existing is modified.",
  note="Trusted: polyclip-go's CLIPLINE semantics (the geometry of this property lives entirely in the dependency), A-REGION, A-ENGINE, A-SMT, A-INT. Thin by nature: lengths/containment of the clipped pieces are not decided by contracts.",
  design="DESIGN.md §3 C14")

CLAIMED["C11"] = dict(
  text="Deductive proof (govc) of the parts of the R-tree that contracts over one call can reach: the box predicates of geom.go (intersect is true iff the boxes share a point for valid boxes; containsPoint/containsRect/enlarge/boundingBox/size/margin against point-set and min/max specs, real arithmetic); computeBoundingBox returns a fresh box that is exactly the fold (join) of the node's entry boxes; NewTree builds an empty balanced tree; Size/Depth return the bookkeeping fields; the epilogues of insert (root split) and Delete (root collapse) keep Depth() == level of the root, leaf <=> level 1 and the child-level relation of the root for every tree satisfying them on entry; Insert adds exactly one to Size, Delete subtracts one exactly when it returns true and otherwise leaves root/height/size alone; searchIntersect/SearchIntersect return, for every tree satisfying the shape invariant wfN (levels decrease by one, boxes non-nil, children non-nil), a fresh slice whose length is the number of leaf entries in the subtree whose box hits the query (recursive count spec, with multiplicity), never dereference nil or index out of range, terminate (measure: node level) and modify nothing.",
  note="PARTIAL. Assumed, not proved (listed as trusted contracts in the evidence): preservation of the tree-shape invariant by the restructuring code chooseNode/split/adjustTree/condenseTree/findLeaf (they only rewrite entries/parent/bb fields; proving the shape through them needs separation/ownership reasoning that govc does not have) — so the history quantifier rests on trusted contracts for these five functions plus the proved epilogues; exact-envelope of every internal entry, the fan-out bound and 'search result = stored objects as a multiset' (only the count and safety are proved) are not decided. Real arithmetic (A-REAL), A-ENGINE, A-SMT, A-INT; termination of recursive spec functions is by their stated measures (not machine-checked). A genuine defect found by the Delete epilogue obligation (height not decremented on root collapse) is repaired (fix: commit) and kept as a regression witness.",
  design="DESIGN.md §3 C11")

CLAIMED["C12"] = dict(
  text="Deductive proof (govc, real arithmetic) of the nearest-neighbour bookkeeping: dist is the Euclidean distance; minDist is the squared distance to the clamped point, attained inside a valid box and a lower bound for every point of the box; insertNearest inserts a candidate at its rank (first position whose distance is strictly greater), shifts the rest, drops the k-th, returns the inputs unchanged when the candidate does not rank, keeps sortedness and lengths (all by loop invariant against the recursive rank spec insPos); pruneEntries returns a fresh sub-multiset of its input; nearestNeighbor/nearestNeighbors never dereference nil or index out of range on trees satisfying the shape invariant wfN, terminate (measure: node level), never worsen any of the k best distances, keep the distance slots sorted and of length k, and modify nothing pre-existing; in nearestNeighbors a branch is skipped only when its MINDIST is strictly greater than the current k-th best distance and every later branch is at least as far (sufficient condition for k-NN correctness, since MINDIST is a proved lower bound); any use of MINMAXDIST pruning in nearestNeighbors is admissible only for k <= 1 (guard obligation on that statement).",
  note="PARTIAL. Not decided: that the returned objects are the true k nearest (needs the subtree-multiset view, exact envelopes and the MINMAXDIST face theorem of Roussopoulos et al. for the k=1 pruning; only the sufficient conditions above are proved); minMaxDist only non-negativity. Trusted: sortEntries (sort.Sort: permutation + sortedness assumed), shape invariant on entry (its preservation by the mutators is assumed, see C11), A-REAL, A-ENGINE, A-SMT, A-INT. A genuine defect (MINMAXDIST pruning applied for k > 1) was found through the guard obligation, confirmed by a concrete 6-point witness and repaired (fix: commit).",
  design="DESIGN.md §3 C12")

NA = {}

def main():
    props=[json.loads(l) for l in open('/verif/properties.jsonl')]
    commits=subprocess.run(['git','-C','/repo','log','--format=%h %s'],capture_output=True,text=True).stdout.strip().split('\n')
    hook_commits=[c.split()[0] for c in commits if c.split(' ',1)[1].startswith('verif:')]
    checks=[]
    na=[]
    for p in props:
        i=p['id']
        if i in CLAIMED:
            c=CLAIMED[i]
            checks.append({
             "property_id": i,
             "quick_cmd": f"/verif/check {i} quick",
             "thorough_cmd": f"/verif/check {i} thorough",
             "evidence_file": f"/verif/evidence/{i}.json",
             "replay_cmd_template": "/verif/bin/govc replay {path}",
             "engine": "govc",
             "level_claimed": {"category":"proof","text":c['text'],"design_ref":c['design']},
             "level_note": c['note'],
             "technique": "contract-based deductive verification: weakest-precondition VCs over go/ssa of the real functions, discharged by z3 4.8.12 / z3 5.1.0 / cvc5 1.0",
            })
        else:
            na.append({"property_id": i, "reason": NA.get(i, "check under construction in this session; no obligation is claimed yet (see DESIGN.md §3 for the planned contracts)")})
    m={
     "version":1,
     "setup_cmd":"cd /verif/engine && GOFLAGS=-mod=mod GOPROXY=off GOSUMDB=off GOTOOLCHAIN=local go build -o /verif/bin/govc ./cmd/govc",
     "hooks":{
      "guard":"verif",
      "enable":"govc loads /repo with -tags=verif; the hook files zz_contracts_verif.go are comment-only contract files (//@ lines) behind //go:build verif",
      "baseline_off_cmd":"cd /repo && go test -mod=mod -json -vet=off -count=1 -timeout 25m ./...",
      "source_commits":hook_commits,
      "add_only":True},
     "engines":[{"name":"govc","path":"/verif/engine","serves_properties":sorted(CLAIMED),"kind_free_text":"verification-condition generator for Go (go/packages+go/ssa, x/tools v0.29.0): contracts in //@ comment files, loops cut at invariants, heap as per-sort arrays, floats as SMT FP / reals / uninterpreted; obligations raced on z3 5.1.0, z3 4.8.12, cvc5 1.0; refutations replayed on the real code via go test -overlay"}],
     "checks":checks,
     "not_applicable":na,
     "notes":"Genuine defects found by the obligations are repaired by 'fix:' commits in /repo and listed in /verif/known_findings.json."
    }
    json.dump(m,open('/verif/MANIFEST.json','w'),indent=1)
main()
