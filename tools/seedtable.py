#!/usr/bin/env python3
"""Regenerates the seeded-change table of DESIGN.md §4.5 from /verif/seeded/*/meta.json."""
import json,glob,os,re
p='/verif/DESIGN.md'
s=open(p).read()
rows=[]
for d in sorted(glob.glob('/verif/seeded/*/meta.json')):
    m=json.load(open(d)); n=os.path.basename(os.path.dirname(d))
    v=m['check'].get('violations',[])
    ob=sorted(set(x.split('obligation=')[1].split(' ')[0] for x in v if 'obligation=' in x))[:2]
    first=m.get('check_first_run',{}).get('detected')
    what=(m.get('what_it_breaks') or '').replace('\n',' ').replace('|','/')
    what=what[:140]+('…' if len(what)>140 else '')
    now=m['check'].get('detected')
    if now=='yes':
        det='yes' if not first or first=='yes' else 'only after strengthening (first run: missed)'
    elif m['check'].get('status')=='exit=2':
        det='undecided (exit 2)' + (': was detected before failed obligations of mismatched contracts became UNDECIDED' if 'check_before_undecided_policy' in m else '')
    else:
        det='**missed**'
    rows.append("| %s | %s | %s | %s |"%(n, what, '; '.join('`%s`'%o for o in ob), det))
hdr="| seed | what it breaks | obligations that fail (first two) | detected |\n|------|----------------|-----------------------------------|----------|\n"
i=s.index(hdr)+len(hdr)
j=s.index("\n\nSeven seeds of the first round were missed", i)
s=s[:i]+"\n".join(rows)+s[j:]
open(p,'w').write(s)
print(len(rows),"rows")
