#!/bin/bash
# usage: scratchcheck.sh <PROP> <patch.diff> <logfile>  — quick check of PROP on a scratch worktree of
# /repo's HEAD with the patch applied (never touches /repo or the evidence files); exit code = govc's.
set -u
PROP=$1; PATCH=$2; LOG=$3
export GOFLAGS=-mod=mod GOPROXY=off GOSUMDB=off GOTOOLCHAIN=local
WT=$(mktemp -d /var/tmp/scratchcheck-XXXXXX); rmdir $WT
git -C /repo worktree add -q --detach $WT HEAD || exit 3
cp /repo/go.sum $WT/go.sum
if ! (cd $WT && git apply "$PATCH"); then echo "patch does not apply" > "$LOG"; git -C /repo worktree remove --force $WT; rm -rf $WT; exit 4; fi
${GOVC:-/verif/bin/govc} check $PROP -tier quick -repo $WT -verif /verif -noevidence > "$LOG" 2>&1; rc=$?
git -C /repo worktree remove --force $WT; rm -rf $WT
exit $rc
