#!/bin/bash
# usage: seedprep.sh <PROP>  — scratch worktree /tmp/seed_<PROP> (contract files removed) + /tmp/prop_<PROP>.txt
set -eu
P=$1
WT=/tmp/seed_$P
git -C /repo worktree remove --force $WT 2>/dev/null || true; rm -rf $WT /tmp/${P}_out
git -C /repo worktree add -q --detach $WT HEAD
cp /repo/go.sum $WT/go.sum
find $WT -name 'zz_contracts_verif.go' -delete
mkdir -p /tmp/${P}_out
python3 - <<PY
import json
for l in open('/verif/properties.jsonl'):
    p=json.loads(l)
    if p['id']=='$P':
        open('/tmp/prop_$P.txt','w').write("Property %s: %s\n\n%s\n\nQuantified over: %s\n\nCode it is anchored in: %s\n" % (p['id'],p['title'],p['statement'],p['quantifier']['text'],", ".join(p['anchors']['files'])))
PY
echo prepared $WT
