package geom

import "testing"

// Witness for C04 (GeometryCollection).Points (fixed): creating the iterator of
// an empty collection, or iterating over a collection whose first member (or
// two members in a row) are empty, must not panic and must yield exactly
// Len() vertices in storage order.
func TestReplayVerif(t *testing.T) {
	defer func() {
		if r := recover(); r != nil {
			t.Fatalf("REPLAY-FAIL panic: %v", r)
		}
	}()
	_ = GeometryCollection{}.Points()
	gc := GeometryCollection{LineString{}, MultiPoint{}, Point{X: 1, Y: 2}, Polygon{{}}, LineString{{3, 4}, {5, 6}}}
	want := []Point{{1, 2}, {3, 4}, {5, 6}}
	if gc.Len() != len(want) {
		t.Fatalf("REPLAY-FAIL Len = %d", gc.Len())
	}
	it := gc.Points()
	for i, w := range want {
		if got := it(); got != w {
			t.Fatalf("REPLAY-FAIL vertex %d = %v, want %v", i, got, w)
		}
	}
}
