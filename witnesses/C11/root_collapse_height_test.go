package rtree

import (
	"testing"

	"github.com/ctessum/geom"
)

// Witness for C11 (Depth equals the depth of the leaves): a history that
// empties one of two leaves makes Delete collapse the root; the height
// bookkeeping must follow.
func TestVerifWitnessRootCollapseHeight(t *testing.T) {
	tree := NewTree(2, 4)
	pts := []geom.Point{{X: 0, Y: 0}, {X: 1, Y: 0}, {X: 10, Y: 10}, {X: 11, Y: 10}, {X: 10, Y: 11}}
	for _, p := range pts {
		tree.Insert(p)
	}
	if tree.Depth() != 2 {
		t.Skipf("unexpected initial depth %d", tree.Depth())
	}
	// find the objects of the first leaf and delete them all
	leaf := tree.root.entries[0].child
	var objs []geom.Geom
	for _, e := range leaf.entries {
		objs = append(objs, e.obj)
	}
	for _, o := range objs {
		if !tree.Delete(o) {
			t.Fatalf("delete of stored object failed")
		}
	}
	depth := 1
	for n := tree.root; !n.leaf; n = n.entries[0].child {
		depth++
	}
	if tree.Depth() != depth || tree.root.level != tree.height {
		t.Fatalf("Depth()=%d root.level=%d but leaves are at depth %d", tree.Depth(), tree.root.level, depth)
	}
}
