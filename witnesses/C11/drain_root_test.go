package rtree

import (
	"math/rand"
	"testing"

	"github.com/ctessum/geom"
)

// Witness for C11: histories that drain the tree. A root collapse can expose a
// node that itself has a single child, and emptying that child left an internal
// root without entries: Depth() was wrong and the next Insert dereferenced nil.
func TestVerifWitnessDrainRoot(t *testing.T) {
	r := rand.New(rand.NewSource(7))
	for trial := 0; trial < 50; trial++ {
		tree := NewTree(2, 4)
		var objs []geom.Point
		n := 10 + r.Intn(30)
		for i := 0; i < n; i++ {
			p := geom.Point{X: float64(r.Intn(50)), Y: float64(r.Intn(50))}
			objs = append(objs, p)
			tree.Insert(p)
		}
		r.Shuffle(len(objs), func(i, j int) { objs[i], objs[j] = objs[j], objs[i] })
		for k, o := range objs {
			if !tree.Delete(o) {
				t.Fatalf("trial %d: delete %d of a stored object failed", trial, k)
			}
			depth := 1
			for nd := tree.root; !nd.leaf; nd = nd.entries[0].child {
				if len(nd.entries) == 0 {
					t.Fatalf("trial %d after delete %d: internal node without entries (root=%v)", trial, k, nd == tree.root)
				}
				depth++
			}
			if depth != tree.Depth() {
				t.Fatalf("trial %d after delete %d: Depth()=%d, leaves at depth %d", trial, k, tree.Depth(), depth)
			}
		}
		tree.Insert(geom.Point{X: 1, Y: 1}) // must not panic on the drained tree
		if tree.Size() != 1 || len(tree.SearchIntersect(&geom.Bounds{Min: geom.Point{X: 0, Y: 0}, Max: geom.Point{X: 2, Y: 2}})) != 1 {
			t.Fatalf("trial %d: refill after drain failed", trial)
		}
	}
}
