package geom

import "testing"

// Witness for C01: symmetric difference of operands whose bounding boxes do not
// overlap (or one of which is empty). polyclip-go's trivial-result shortcuts
// ("Test 1"/"Test 2" in clipper.compute) return an empty polygon for XOR,
// although A xor B == A union B there. Obligation: geom.(Polygon).op/ensures[region]
// against the dependency's contract, which does not promise a region for that case.
func TestReplayVerif(t *testing.T) {
	a := Polygon{{{0, 0}, {1, 0}, {1, 1}, {0, 1}, {0, 0}}}
	b := Polygon{{{2, 2}, {3, 2}, {3, 3}, {2, 3}, {2, 2}}}
	area := func(g Polygonal) float64 {
		if g == nil {
			return 0
		}
		s := 0.
		for _, p := range g.Polygons() {
			s += p.Area()
		}
		return s
	}
	if got := area(a.XOr(b)); got != 2 {
		t.Fatalf("REPLAY-FAIL Polygon.XOr of box-disjoint unit squares has area %v, want 2", got)
	}
	if got := area(MultiPolygon{a}.XOr(b)); got != 2 {
		t.Fatalf("REPLAY-FAIL MultiPolygon.XOr of box-disjoint unit squares has area %v, want 2", got)
	}
	if got := area((&Bounds{Min: Point{0, 0}, Max: Point{1, 1}}).XOr(&Bounds{Min: Point{2, 2}, Max: Point{3, 3}})); got != 2 {
		t.Fatalf("REPLAY-FAIL (*Bounds).XOr of disjoint boxes has area %v, want 2", got)
	}
	if got := area(a.XOr(Polygon{})); got != 1 {
		t.Fatalf("REPLAY-FAIL Polygon.XOr with an empty polygon has area %v, want 1", got)
	}
	if got := area(Polygon{}.XOr(a)); got != 1 {
		t.Fatalf("REPLAY-FAIL empty Polygon.XOr(a) has area %v, want 1", got)
	}
}
