package route

import (
	"math"
	"testing"

	"github.com/ctessum/geom"
)

// Witness for C19: with one alternative route the cheapest chain must win,
// not the chain with the fewest links (Distance), and the travel-time
// heuristic must not overestimate (Time).
func TestVerifWitnessWeightedRoute(t *testing.T) {
	net := NewNetwork(Distance)
	net.AddLink(geom.LineString{{X: 0, Y: 0}, {X: 0, Y: 5}, {X: 2, Y: 5}, {X: 2, Y: 0}}, 1) // direct but long: 12
	net.AddLink(geom.LineString{{X: 0, Y: 0}, {X: 1, Y: 0}}, 1)
	net.AddLink(geom.LineString{{X: 1, Y: 0}, {X: 2, Y: 0}}, 1)
	route, dist, _, _, _ := net.ShortestRoute(geom.Point{X: 0, Y: 0}, geom.Point{X: 2, Y: 0})
	if len(route) != 2 || math.Abs(dist-2) > 1e-12 {
		t.Fatalf("distance route has %d links and length %g, want 2 links of total length 2", len(route), dist)
	}
}

func TestVerifWitnessTimeHeuristic(t *testing.T) {
	// The travel-time heuristic must never overestimate: straight-line distance
	// divided by the FASTEST speed in the network. With the slowest speed it
	// turns A* into a greedy search that takes the slow road through (9,0).
	net := NewNetwork(Time)
	net.AddLink(geom.LineString{{X: 0, Y: 0}, {X: 9, Y: 0}}, 1)
	net.AddLink(geom.LineString{{X: 9, Y: 0}, {X: 10, Y: 0}}, 1)
	net.AddLink(geom.LineString{{X: 0, Y: 0}, {X: 5, Y: 5}}, 100)
	net.AddLink(geom.LineString{{X: 5, Y: 5}, {X: 10, Y: 0}}, 100)
	net.AddLink(geom.LineString{{X: 100, Y: 100}, {X: 101, Y: 100}}, 0.001)
	_, _, tm, _, _ := net.ShortestRoute(geom.Point{X: 0, Y: 0}, geom.Point{X: 10, Y: 0})
	want := 2 * math.Hypot(5, 5) / 100
	if math.Abs(tm-want) > 1e-9 {
		t.Fatalf("fastest route takes %g, want %g", tm, want)
	}
}
