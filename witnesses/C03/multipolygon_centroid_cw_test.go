package geom

import "testing"

// Witness for C03 (MultiPolygon).Centroid/assert[ring_centroid] (fixed): a
// clockwise unit square must have its centroid at (0.5, 0.5), like the
// counter-clockwise one.
func TestReplayVerif(t *testing.T) {
	cw := MultiPolygon{{{{0, 0}, {0, 1}, {1, 1}, {1, 0}, {0, 0}}}}
	c := cw.Centroid()
	if c.X != 0.5 || c.Y != 0.5 {
		t.Fatalf("REPLAY-FAIL centroid of a clockwise unit square = %v, want {0.5 0.5}", c)
	}
}
