package geojson

import "testing"

// Witness for C06: a geometry value of no supported type must be reported as
// an error; the nil geometry made ToGeoJSON/Encode dereference a nil reflect.Type.
func TestVerifWitnessEncodeNil(t *testing.T) {
	defer func() {
		if r := recover(); r != nil {
			t.Fatalf("Encode(nil) panicked: %v", r)
		}
	}()
	if _, err := Encode(nil); err == nil {
		t.Fatalf("Encode(nil) returned no error")
	}
}
