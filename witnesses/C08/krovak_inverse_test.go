package proj

import (
	"math"
	"testing"
)

// Witness for C08: the Krovak inverse computed the position into its reused
// parameter variables but never assigned the results, so every inverse
// transformation returned (0, 0).
func TestVerifWitnessKrovakInverse(t *testing.T) {
	sr, err := Parse("+proj=krovak +lat_0=49.5 +lon_0=24.83333333333333 +alpha=30.28813972222222 +k=0.9999 +x_0=0 +y_0=0 +ellps=bessel +units=m +no_defs")
	if err != nil {
		t.Fatal(err)
	}
	fwd, inv, err := sr.Transformers()
	if err != nil {
		t.Fatal(err)
	}
	lon0, lat0 := 14.4*math.Pi/180, 50.08*math.Pi/180 // Prague
	x, y, err := fwd(lon0, lat0)
	if err != nil {
		t.Fatal(err)
	}
	lon, lat, err := inv(x, y)
	if err != nil {
		t.Fatal(err)
	}
	if math.Abs(lon-lon0) > 1e-6*math.Pi/180 || math.Abs(lat-lat0) > 1e-6*math.Pi/180 {
		t.Fatalf("inverse(forward(%g, %g)) = (%g, %g)", lon0, lat0, lon, lat)
	}
}
