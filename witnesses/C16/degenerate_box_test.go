package shp

import (
	"testing"

	"github.com/ctessum/geom"
	shp "github.com/jonas-p/go-shp"
)

// Witness for C16 ("boxes as five-vertex rectangles"): a box of zero height (or zero area) was
// written with FOUR vertices. (*Bounds).Polygons() gives the four corners unclosed, geom2polygon
// closes a ring only when first != last, and for Min.Y == Max.Y the first and the fourth corner
// coincide, so the ring was taken to be closed already.
func TestReplayVerif(t *testing.T) {
	for _, b := range []*geom.Bounds{
		{Min: geom.Point{X: 0, Y: 5}, Max: geom.Point{X: 3, Y: 5}},
		{Min: geom.Point{X: 2, Y: 2}, Max: geom.Point{X: 2, Y: 2}},
		{Min: geom.Point{X: 2, Y: 0}, Max: geom.Point{X: 2, Y: 7}},
		{Min: geom.Point{X: 0, Y: 0}, Max: geom.Point{X: 1, Y: 1}},
	} {
		s, err := geom2Shp(b)
		if err != nil {
			t.Fatalf("REPLAY-FAIL %v", err)
		}
		pg, ok := s.(*shp.Polygon)
		if !ok {
			t.Fatalf("REPLAY-FAIL box written as %T", s)
		}
		if len(pg.Points) != 5 {
			t.Fatalf("REPLAY-FAIL box %v written with %d vertices %v, want 5", b, len(pg.Points), pg.Points)
		}
		if pg.Points[0] != pg.Points[4] {
			t.Fatalf("REPLAY-FAIL box ring not closed: %v", pg.Points)
		}
	}
}
