package wkb

import (
	"runtime"
	"testing"
)

// Witness for C07: count fields of the input are trusted. A 9-byte line string
// header that claims 2^24 points makes the decoder allocate 256 MiB before it
// notices that no point data follows (2^32-1 would ask for 64 GiB).
func TestReplayVerif(t *testing.T) {
	in := []byte{1, 2, 0, 0, 0, 0, 0, 0, 1} // little endian, LineString, numPoints = 1<<24
	var before, after runtime.MemStats
	runtime.ReadMemStats(&before)
	g, err := Decode(in)
	runtime.ReadMemStats(&after)
	if err == nil {
		t.Fatalf("truncated input decoded to %v", g)
	}
	if grown := after.TotalAlloc - before.TotalAlloc; grown > 1<<20 {
		t.Fatalf("REPLAY-FAIL decoding %d bytes allocated %d bytes", len(in), grown)
	}
}
