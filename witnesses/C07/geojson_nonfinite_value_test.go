package geojson

import (
	"math"
	"testing"
)

// Witness for C07 ("whenever decoding succeeds, re-encoding the result and decoding again yields
// the same geometry"): a Geometry VALUE whose coordinates hold NaN or +-Inf was accepted by
// FromGeoJSON, but the resulting geometry cannot be encoded ("json: unsupported value: NaN").
// The bytes path (Decode) never produces such numbers; the value path must reject them.
func TestReplayVerif(t *testing.T) {
	for _, bad := range []float64{math.NaN(), math.Inf(1), math.Inf(-1)} {
		g, err := FromGeoJSON(&Geometry{Type: "Point", Coordinates: []interface{}{bad, 2.0}})
		if err != nil {
			continue // rejected: fine
		}
		if _, err2 := Encode(g); err2 != nil {
			t.Fatalf("REPLAY-FAIL FromGeoJSON accepted coordinate %v and returned %v, which Encode rejects: %v", bad, g, err2)
		}
	}
	g, err := FromGeoJSON(&Geometry{Type: "LineString", Coordinates: []interface{}{[]interface{}{0.0, 1.0}, []interface{}{math.Inf(1), 1.0}}})
	if err == nil {
		if _, err2 := Encode(g); err2 != nil {
			t.Fatalf("REPLAY-FAIL FromGeoJSON accepted a LineString with +Inf, which Encode rejects: %v", err2)
		}
	}
}
