package rtree

import (
	"math"
	"testing"

	"github.com/ctessum/geom"
)

// Witness for C12: MINMAXDIST pruning is only valid for k = 1. With it applied
// to k = 2 this tree answered {19 0},{13 17} although {5 8} is closer than {13 17}.
func TestVerifWitnessKNNPruning(t *testing.T) {
	pts := []geom.Point{{X: 7, Y: 18}, {X: 4, Y: 19}, {X: 13, Y: 17}, {X: 1, Y: 9}, {X: 19, Y: 0}, {X: 5, Y: 8}}
	tree := NewTree(2, 4)
	for _, p := range pts {
		tree.Insert(p)
	}
	q := geom.Point{X: 18, Y: 3}
	res := tree.NearestNeighbors(2, q)
	want := []float64{math.Hypot(1, 3), math.Hypot(13, 5)}
	for i, w := range want {
		if res[i] == nil {
			t.Fatalf("slot %d is nil", i)
		}
		p := res[i].(geom.Point)
		if d := math.Hypot(p.X-q.X, p.Y-q.Y); math.Abs(d-w) > 1e-9 {
			t.Fatalf("neighbour %d is %v at distance %g, want distance %g", i, p, d, w)
		}
	}
}
