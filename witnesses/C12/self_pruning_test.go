package rtree

import (
	"testing"

	"github.com/ctessum/geom"
)

// Witness for C12: for a branch box that is degenerate in one dimension MINDIST
// and MINMAXDIST coincide mathematically, but MINMAXDIST (computed as
// S - d1*d1 + d2*d2) can round one ulp below MINDIST, so the branch pruned
// itself and NearestNeighbor panicked ("nearest neighbor is nil").
func TestVerifWitnessSelfPruning(t *testing.T) {
	tree := NewTree(2, 3)
	seg := func(x0, y0, x1, y1 float64) geom.Geom {
		return &geom.Bounds{Min: geom.Point{X: x0, Y: y0}, Max: geom.Point{X: x1, Y: y1}}
	}
	objs := []geom.Geom{seg(0, 0.16, 0.01, 0.16), seg(0.01, 0.16, 0.04, 0.16), seg(5, 5, 6, 6), seg(5, 7, 6, 8)}
	for _, o := range objs {
		tree.Insert(o)
	}
	defer func() {
		if r := recover(); r != nil {
			t.Fatalf("NearestNeighbor panicked: %v", r)
		}
	}()
	got := tree.NearestNeighbor(geom.Point{X: -0.06, Y: 0.17})
	if got != objs[0] {
		t.Fatalf("nearest is %v, want %v", got, objs[0])
	}
}
