package proj

import (
	"math"
	"testing"
)

// Witness for C09 (tables / parameter handling equal proj4js 2.3.12): a NAMED prime
// meridian (+pm=paris) was stored in degrees although FromGreenwich is in radians
// (lib/projString.js: from_greenwich = (PrimeMeridian[v] ? PrimeMeridian[v] : parseFloat(v)) * D2R),
// so longitudes came out off by tens of degrees; a numeric +pm was converted correctly.
func TestReplayVerif(t *testing.T) {
	named, err := Parse("+proj=longlat +ellps=WGS84 +datum=WGS84 +pm=paris +no_defs")
	if err != nil {
		t.Skip(err)
	}
	numeric, err := Parse("+proj=longlat +ellps=WGS84 +datum=WGS84 +pm=2.337229166667 +no_defs")
	if err != nil {
		t.Skip(err)
	}
	if math.Abs(named.FromGreenwich-numeric.FromGreenwich) > 1e-15 {
		t.Fatalf("REPLAY-FAIL +pm=paris gives FromGreenwich=%v, +pm=2.337229166667 gives %v (radians expected: %v)", named.FromGreenwich, numeric.FromGreenwich, 2.337229166667*math.Pi/180)
	}
	wgs, _ := Parse("WGS84")
	tr, err := wgs.NewTransform(named)
	if err != nil || tr == nil {
		t.Skip(err)
	}
	x, y, err := tr(10, 45)
	if err != nil {
		t.Fatalf("REPLAY-FAIL %v", err)
	}
	// proj4js 2.3.12: [7.66277083..., 45]
	if math.Abs(x-(10-2.337229166667)) > 1e-9 || math.Abs(y-45) > 1e-9 {
		t.Fatalf("REPLAY-FAIL WGS84 -> +pm=paris of (10,45) = (%v,%v), proj4js gives (7.662770833333, 45)", x, y)
	}
}
