package geom

import "testing"

// Witness for the known finding C13 simplifyCurve/assert[last_chord_validated]:
// the closing chord (last kept vertex -> final vertex) is appended without the
// intersection test every other chord gets. The input is a simple open line
// string in general position; the output crosses itself.
func TestReplayVerif(t *testing.T) {
	in := LineString{{2, 9}, {0, 4}, {6, 4}, {1, 0}, {5, 2}, {9, 7}}
	out := in.Simplify(1.5).(LineString)
	orient := func(a, b, c Point) float64 { return (b.X-a.X)*(c.Y-a.Y) - (b.Y-a.Y)*(c.X-a.X) }
	cross := func(a, b, c, d Point) bool {
		o1, o2, o3, o4 := orient(a, b, c), orient(a, b, d), orient(c, d, a), orient(c, d, b)
		return o1*o2 < 0 && o3*o4 < 0
	}
	for i := 0; i+1 < len(out); i++ {
		for j := i + 2; j+1 < len(out); j++ {
			if cross(out[i], out[i+1], out[j], out[j+1]) {
				t.Fatalf("REPLAY-FAIL simple input %v simplified to self-intersecting %v (segments %d and %d cross)", in, out, i, j)
			}
		}
	}
}
