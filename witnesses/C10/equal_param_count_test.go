package proj

import "testing"

// Witness for C10/C20: spatial references whose towgs84 lists have different
// lengths. With the longer list on the receiver NewTransform panicked inside the
// reflect-based Equal ("slice index out of range"); with the shorter list on the
// receiver only the common prefix was compared, so a 3-parameter and a
// 7-parameter datum with the same shifts counted as Equal and NewTransform
// returned the nil (identity) transformer.
func TestReplayVerif(t *testing.T) {
	defer func() {
		if r := recover(); r != nil {
			t.Fatalf("REPLAY-FAIL NewTransform panicked: %v", r)
		}
	}()
	a, err := Parse("+proj=longlat +ellps=bessel +towgs84=598.1,73.7,418.2,0.202,0.045,-2.455,6.7 +no_defs")
	if err != nil {
		t.Skip(err)
	}
	b, err := Parse("+proj=longlat +ellps=bessel +towgs84=598.1,73.7,418.2 +no_defs")
	if err != nil {
		t.Skip(err)
	}
	tab, err := a.NewTransform(b)
	if err != nil {
		t.Skip(err)
	}
	tba, err := b.NewTransform(a)
	if err != nil {
		t.Skip(err)
	}
	if tab == nil || tba == nil {
		t.Fatalf("REPLAY-FAIL references with different datum shifts were treated as Equal (identity transformer)")
	}
}
