package proj

import (
	"math"
	"testing"
)

// Witness for C10: a transformer must give the same answer whatever other
// transformers were used before. datumTransform overwrote dest.a / dest.es for a
// grid-shift destination and then returned "gridshift not supported" without
// restoring them, so one failing call changed the answers of other transformers
// that share the destination reference.
func TestReplayVerif(t *testing.T) {
	g1, err := Parse("+proj=longlat +ellps=clrk66 +nadgrids=conus +no_defs")
	if err != nil {
		t.Skip(err)
	}
	g2, err := Parse("+proj=merc +ellps=clrk66 +nadgrids=conus +no_defs")
	if err != nil {
		t.Skip(err)
	}
	wgs, err := Parse("+proj=longlat +datum=WGS84 +no_defs")
	if err != nil {
		t.Skip(err)
	}
	t12, err := g1.NewTransform(g2)
	if err != nil || t12 == nil {
		t.Skipf("no transformer: %v", err)
	}
	x0, y0, err0 := t12(-100, 40)
	tw2, err := wgs.NewTransform(g2)
	if err == nil && tw2 != nil {
		tw2(-100, 40) // fails with "gridshift not supported"; must not change g2
	}
	x1, y1, err1 := t12(-100, 40)
	same := (err0 == nil) == (err1 == nil) && (err0 != nil || (math.Float64bits(x0) == math.Float64bits(x1) && math.Float64bits(y0) == math.Float64bits(y1)))
	if !same {
		t.Fatalf("REPLAY-FAIL the same transformer answered (%g, %g, %v) and then (%g, %g, %v) after an unrelated transformer was used", x0, y0, err0, x1, y1, err1)
	}
}
