package proj

import (
	"math"
	"testing"
)

// Witness for C10 (history independence): an equidistant conic reference with lat_1 = 0 and no
// lat_2. EqdC checked "parallels equal and on opposite sides of the equator" BEFORE defaulting the
// missing lat_2 to lat_1 on the shared *SR: the first call of the transformer passed the check
// (NaN compares false), wrote Lat2 = 0 into the reference and returned (NaN, NaN, nil); every later
// call — and every transformer built later from the same reference — returned an error.
func TestReplayVerif(t *testing.T) {
	src, err := Parse("WGS84")
	if err != nil {
		t.Skip(err)
	}
	dst, err := Parse("+proj=eqdc +lat_0=10 +lon_0=0 +lat_1=0 +x_0=0 +y_0=0 +ellps=WGS84 +datum=WGS84 +units=m")
	if err != nil {
		t.Skip(err)
	}
	tr, err := src.NewTransform(dst)
	if err != nil || tr == nil {
		t.Skip(err)
	}
	x1, y1, e1 := tr(3, 4)
	x2, y2, e2 := tr(3, 4)
	same := func(a, b float64) bool { return a == b || (math.IsNaN(a) && math.IsNaN(b)) }
	if (e1 == nil) != (e2 == nil) || (e1 == nil && (!same(x1, x2) || !same(y1, y2))) {
		t.Fatalf("REPLAY-FAIL the same call gave (%v, %v, %v) the first time and (%v, %v, %v) the second time", x1, y1, e1, x2, y2, e2)
	}
}
